#!/bin/sh
# Builds the shadow Kani bundle <verif>/.target/kani-home: everything is a symlink into the
# installed bundle except
#   bin/cbmc     -> lib/cbmc_wrapper.py   (GOTO-binary relayout, then the real cbmc)
#   bin/goto-cc  -> lib/gotocc_wrapper.py (with VERIF_KANI_LIB=verif: lib/kani_lib/kani_lib.c instead of Kani's)
set -e
V=/verif
[ -n "$1" ] && V="$1"
REAL="$HOME/.kani/kani-0.68.0"
SH="$V/.target/kani-home/kani-0.68.0"
rm -rf "$V/.target/kani-home" "$V/.target/kani-home-lib"
mkdir -p "$SH/bin"
for f in "$REAL"/*; do b=$(basename "$f"); [ "$b" = bin ] || ln -s "$f" "$SH/$b"; done
for f in "$REAL"/bin/*; do b=$(basename "$f"); [ "$b" = cbmc ] || [ "$b" = goto-cc ] || ln -s "$f" "$SH/bin/$b"; done
ln -s "$V/lib/cbmc_wrapper.py" "$SH/bin/cbmc"
ln -s "$V/lib/gotocc_wrapper.py" "$SH/bin/goto-cc"
