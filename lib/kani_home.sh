#!/bin/sh
# Builds the shadow Kani bundle: everything is a symlink into the installed bundle except
# bin/cbmc, which is lib/cbmc_wrapper.py (GOTO-binary relayout, then the real cbmc).
set -e
V=/verif
[ -n "$1" ] && V="$1"
REAL="$HOME/.kani/kani-0.68.0"
SH="$V/.target/kani-home/kani-0.68.0"
rm -rf "$V/.target/kani-home"
mkdir -p "$SH/bin"
for f in "$REAL"/*; do b=$(basename "$f"); [ "$b" = bin ] || ln -s "$f" "$SH/$b"; done
for f in "$REAL"/bin/*; do b=$(basename "$f"); [ "$b" = cbmc ] || ln -s "$f" "$SH/bin/$b"; done
ln -s "$V/lib/cbmc_wrapper.py" "$SH/bin/cbmc"
