#!/usr/bin/env python3
"""Regenerates /verif/MANIFEST.json from the table below (single source of truth for the
claims). Run after adding or removing a check:  python3 lib/mkmanifest.py"""
import json, os, subprocess

VERIF = os.path.dirname(os.path.dirname(os.path.abspath(__file__)))

TECH = "bounded symbolic execution of the compiled code (Kani 0.68 -> CBMC 6.11 -> CaDiCaL SAT), counterexamples replayed natively"

TRUST = ("Trusted: Kani 0.68 / CBMC 6.11 / CaDiCaL; lib/gbf_relayout.py (permutation of instruction chains that end in an unconditional GOTO; DESIGN.md 3.2); "
         "the model crates stubs/anyhow (error = zero-sized token, only Ok/Err survives), stubs/indexmap (insertion-ordered 4-slot store, linear lookup) and stubs/java_string "
         "(ASCII model under cfg(kani)), validated on every run by replaying every cover witness and every counterexample natively against the real crates; "
         "for harnesses tagged lib=verif the C model library lib/kani_lib/kani_lib.c (exact small memcpy, allocator with slack; DESIGN.md 4.6); the std hash-map stubs of harness/src/hstubs.rs; "
         "ASCII strings only; dev-profile semantics; the reference oracles in harness/src/refmodel.rs and in the harness files. "
         "Nothing is claimed outside the bound of each harness (evidence: coverage.samples[*].bound); UNDECIDED harnesses never count as a pass.")

# property -> (claimed?, level text, design ref, extra note)
CLAIMS = {
}

NOT_APPLICABLE = {
}


def load_tables():
    import importlib.util
    spec = importlib.util.spec_from_file_location("claims", os.path.join(VERIF, "lib", "claims.py"))
    m = importlib.util.module_from_spec(spec)
    spec.loader.exec_module(m)
    return m.CLAIMS, m.NOT_APPLICABLE, m.HOOK_COMMITS


def main():
    claims, na, hook_commits = load_tables()
    checks = []
    for pid in sorted(claims):
        c = claims[pid]
        checks.append({
            "property_id": pid,
            "quick_cmd": f"./check {pid} --tier quick",
            "thorough_cmd": f"./check {pid} --tier thorough",
            "evidence_file": f"/verif/evidence/{pid}.json",
            "replay_cmd_template": f"./check {pid} --replay {{path}}",
            "engine": "kani-cbmc",
            "level_claimed": {"category": "model_checking", "text": c["text"], "design_ref": c["ref"]},
            "level_note": c.get("note", "") + (" " if c.get("note") else "") + TRUST,
            "technique": TECH,
        })
    man = {
        "version": 1,
        "setup_cmd": "./setup.sh",
        "hooks": {
            "guard": "cargo feature `verif` (duke, quill, dukebox, dukenest, raw_class_file; off by default)",
            "enable": "the harness crates depend on /repo's crates by path with features = [\"verif\"]; the add-only `verif` modules contain forwarding wrappers and read-only accessors only",
            "baseline_off_cmd": "cd /repo && cargo test --workspace --no-fail-fast --offline",
            "source_commits": hook_commits,
            "add_only": True,
        },
        "engines": [
            {"name": "kani-cbmc", "path": "/verif/check", "serves_properties": sorted(claims),
             "kind_free_text": "python driver -> one `cargo kani` process per harness (harness/src/*.rs compiled against /repo's working tree with model crates patched in; shadow Kani bundle that relays out the GOTO binary before CBMC) -> CBMC/CaDiCaL; counterexamples and cover witnesses replayed natively by /verif/replay against the real crates"},
        ],
        "checks": checks,
        "not_applicable": [{"property_id": k, "reason": na[k]} for k in sorted(na)],
        "notes": "Every verdict is bounded: 'assertion A holds for all inputs of harness H within bound B under models S'. UNDECIDED harnesses (time/memory cap, unwinding bound) are listed in the evidence and never counted as a pass or a violation. See DESIGN.md.",
    }
    with open(os.path.join(VERIF, "MANIFEST.json"), "w") as f:
        json.dump(man, f, indent=1)
    print("MANIFEST.json written:", len(checks), "checks,", len(na), "not applicable")


if __name__ == "__main__":
    main()
