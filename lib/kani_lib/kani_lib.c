// VERIF MODEL: /verif's variant of Kani 0.68's library/kani/kani_lib.c (DESIGN.md §4.6), installed
// into the shadow bundle by lib/kani_home.sh. Differences to the original, all marked VERIF:
//  * the allocator hands out blocks of at least VERIF_SLACK bytes and grows such a block in place
//    (contract of the global allocator kept; CBMC's copy of a block of symbolic size avoided);
//  * memcpy/memmove of at most VERIF_COPY_MAX bytes are exact byte-wise copies. CBMC's built-in
//    model (__CPROVER_array_copy of a variable-length array) loses the copied bytes when the source
//    pointer is a merge of two heap objects of different size, which made sound code fail
//    (10-line reproduction in DESIGN.md §4.6).
// Copyright Kani Contributors
// SPDX-License-Identifier: Apache-2.0 OR MIT
#include <stddef.h>
#include <stdint.h>

// Declare functions instead of importing more headers in order to avoid conflicting definitions.
// See https://github.com/model-checking/kani/issues/1774 for more details.
void  free(void *ptr);
void *memcpy(void *dst, const void *src, size_t n);
void *calloc(size_t nmemb, size_t size);
void *malloc(size_t size);

// VERIF
#define VERIF_SLACK 32
#define VERIF_COPY_MAX 16

/// Mapping unit to `void` works for functions with no return type but not for
/// variables with type unit. We treat both uniformly by declaring an empty
/// struct type: `struct Unit {}` and a global variable `struct Unit VoidUnit`
/// returned by all void functions (both declared by the Kani compiler).
struct Unit;
extern struct Unit VoidUnit;

// `assert` then `assume`
#define __KANI_assert(cond, msg)            \
    do {                                    \
        __CPROVER_bool __KANI_temp = (cond);          \
        __CPROVER_assert(__KANI_temp, msg); \
        __CPROVER_assume(__KANI_temp);      \
    } while (0)

// Check that the input is either a power of 2, or 0. Algorithm from Hackers Delight.
__CPROVER_bool __KANI_is_nonzero_power_of_two(size_t i) { return (i != 0) && (i & (i - 1)) == 0; }

// This is a C implementation of the __rust_alloc function.
// https://stdrs.dev/nightly/x86_64-unknown-linux-gnu/alloc/alloc/fn.__rust_alloc.html
// It has the following Rust signature:
//   `unsafe fn __rust_alloc(size: usize, align: usize) -> *mut u8`
// This low-level function is called by std::alloc:alloc, and its
// implementation is provided by the compiler backend, so we need to provide an
// implementation for it to prevent verification failure due to missing function
// definition.
// For safety, refer to the documentation of GlobalAlloc::alloc:
// https://doc.rust-lang.org/std/alloc/trait.GlobalAlloc.html#tymethod.alloc
uint8_t *__rust_alloc(size_t size, size_t align)
{
    __KANI_assert(size > 0, "__rust_alloc must be called with a size greater than 0");
    // TODO: Ensure we are doing the right thing with align
    // https://github.com/model-checking/kani/issues/1168
    __KANI_assert(__KANI_is_nonzero_power_of_two(align), "Alignment is power of two");
    return malloc(size <= VERIF_SLACK ? VERIF_SLACK : size); // VERIF
}

// This is a C implementation of the __rust_alloc_zeroed function.
// https://stdrs.dev/nightly/x86_64-unknown-linux-gnu/alloc/alloc/fn.__rust_alloc_zeroed.html
// It has the following Rust signature:
//   unsafe fn __rust_alloc_zeroed(size: usize, align: usize) -> *mut u8
// This low-level function is called by std::alloc:alloc_zeroed, and its
// implementation is provided by the compiler backend, so we need to provide an
// implementation for it to prevent verification failure due to missing function
// definition.
// For safety, refer to the documentation of GlobalAlloc::alloc_zeroed:
// hhttps://doc.rust-lang.org/std/alloc/fn.alloc_zeroed.html
uint8_t *__rust_alloc_zeroed(size_t size, size_t align)
{
    __KANI_assert(size > 0, "__rust_alloc_zeroed must be called with a size greater than 0");
    // TODO: Ensure we are doing the right thing with align
    // https://github.com/model-checking/kani/issues/1168
    __KANI_assert(__KANI_is_nonzero_power_of_two(align), "Alignment is power of two");
    return calloc(1, size <= VERIF_SLACK ? VERIF_SLACK : size); // VERIF
}

// This is a C implementation of the __rust_dealloc function.
// https://stdrs.dev/nightly/x86_64-unknown-linux-gnu/alloc/alloc/fn.__rust_dealloc.html
// It has the following Rust signature:
//   `unsafe fn __rust_dealloc(ptr: *mut u8, size: usize, align: usize)`
// This low-level function is called by std::alloc:dealloc, and its
// implementation is provided by the compiler backend, so we need to provide an
// implementation for it to prevent verification failure due to missing function
// definition.
// For safety, refer to the documentation of GlobalAlloc::dealloc:
// https://doc.rust-lang.org/std/alloc/trait.GlobalAlloc.html#tymethod.dealloc
struct Unit __rust_dealloc(uint8_t *ptr, size_t size, size_t align)
{
    // TODO: Ensure we are doing the right thing with align
    // https://github.com/model-checking/kani/issues/1168
    __KANI_assert(__KANI_is_nonzero_power_of_two(align), "Alignment is power of two");

    // VERIF: blocks may be larger than their layout
    __KANI_assert(__CPROVER_OBJECT_SIZE(ptr) == (size <= VERIF_SLACK ? VERIF_SLACK : size),
                  "rust_dealloc must be called on an object whose allocated size matches its layout");
    free(ptr);
    return VoidUnit;
}

// This is a C implementation of the __rust_realloc function that has the following signature:
//     fn __rust_realloc(ptr: *mut u8, old_size: usize, align: usize, new_size: usize) -> *mut u8;
// This low-level function is called by std::alloc:realloc, and its
// implementation is provided by the compiler backend, so we need to provide an
// implementation for it to prevent verification failure due to missing function
// definition.
// For safety, refer to the documentation of GlobalAlloc::realloc:
// https://doc.rust-lang.org/std/alloc/trait.GlobalAlloc.html#method.realloc
uint8_t *__rust_realloc(uint8_t *ptr, size_t old_size, size_t align, size_t new_size)
{
    // Passing a NULL pointer is undefined behavior
    __KANI_assert(ptr != 0, "rust_realloc must be called with a non-null pointer");

    // Passing a new_size of 0 is undefined behavior
    __KANI_assert(new_size > 0, "rust_realloc must be called with a size greater than 0");

    // TODO: Ensure we are doing the right thing with align
    // https://github.com/model-checking/kani/issues/1168
    __KANI_assert(__KANI_is_nonzero_power_of_two(align), "Alignment is power of two");

    // VERIF: a small block has VERIF_SLACK bytes and grows (or shrinks) in place
    if (old_size <= VERIF_SLACK && new_size <= VERIF_SLACK) {
        return ptr;
    }
    uint8_t *result = malloc(new_size <= VERIF_SLACK ? VERIF_SLACK : new_size);
    if (result) {
        size_t bytes_to_copy = new_size < old_size ? new_size : old_size;
        memcpy(result, ptr, bytes_to_copy);
        free(ptr);
    }

    return result;
}

// Function required by the linker, see https://github.com/rust-lang/rust/pull/141061
struct Unit __rust_no_alloc_shim_is_unstable_v2(void)
{
    return VoidUnit;
}

// VERIF: exact small copies (see the note at the top). Larger ones use CBMC's own model.
// The region checks are stated once (r_ok / w_ok); the per-byte pointer checks are switched off.
#pragma CPROVER check push
#pragma CPROVER check disable "pointer"
#pragma CPROVER check disable "bounds"
#pragma CPROVER check disable "pointer-overflow"
void *memcpy(void *dst, const void *src, size_t n)
{
__CPROVER_HIDE:;
    if (n <= VERIF_COPY_MAX) {
        char *d = (char *)dst;
        const char *s = (const char *)src;
        __CPROVER_precondition(n == 0 || __CPROVER_r_ok(src, n), "memcpy source region readable");
        __CPROVER_precondition(n == 0 || __CPROVER_w_ok(dst, n), "memcpy destination region writeable");
        if (n > 0) d[0] = s[0];
        if (n > 1) d[1] = s[1];
        if (n > 2) d[2] = s[2];
        if (n > 3) d[3] = s[3];
        if (n > 4) d[4] = s[4];
        if (n > 5) d[5] = s[5];
        if (n > 6) d[6] = s[6];
        if (n > 7) d[7] = s[7];
        if (n > 8) d[8] = s[8];
        if (n > 9) d[9] = s[9];
        if (n > 10) d[10] = s[10];
        if (n > 11) d[11] = s[11];
        if (n > 12) d[12] = s[12];
        if (n > 13) d[13] = s[13];
        if (n > 14) d[14] = s[14];
        if (n > 15) d[15] = s[15];
        return dst;
    }
    __CPROVER_precondition(__CPROVER_r_ok(src, n), "memcpy source region readable");
    __CPROVER_precondition(__CPROVER_w_ok(dst, n), "memcpy destination region writeable");
    char src_n[n];
    __CPROVER_array_copy(src_n, (char *)src);
    __CPROVER_array_replace((char *)dst, src_n);
    return dst;
}

void *memmove(void *dst, const void *src, size_t n)
{
__CPROVER_HIDE:;
    if (n <= VERIF_COPY_MAX) {
        char *d = (char *)dst;
        const char *s = (const char *)src;
        char t[VERIF_COPY_MAX];
        __CPROVER_precondition(n == 0 || __CPROVER_r_ok(src, n), "memmove source region readable");
        __CPROVER_precondition(n == 0 || __CPROVER_w_ok(dst, n), "memmove destination region writeable");
        if (n > 0) t[0] = s[0];
        if (n > 1) t[1] = s[1];
        if (n > 2) t[2] = s[2];
        if (n > 3) t[3] = s[3];
        if (n > 4) t[4] = s[4];
        if (n > 5) t[5] = s[5];
        if (n > 6) t[6] = s[6];
        if (n > 7) t[7] = s[7];
        if (n > 8) t[8] = s[8];
        if (n > 9) t[9] = s[9];
        if (n > 10) t[10] = s[10];
        if (n > 11) t[11] = s[11];
        if (n > 12) t[12] = s[12];
        if (n > 13) t[13] = s[13];
        if (n > 14) t[14] = s[14];
        if (n > 15) t[15] = s[15];
        if (n > 0) d[0] = t[0];
        if (n > 1) d[1] = t[1];
        if (n > 2) d[2] = t[2];
        if (n > 3) d[3] = t[3];
        if (n > 4) d[4] = t[4];
        if (n > 5) d[5] = t[5];
        if (n > 6) d[6] = t[6];
        if (n > 7) d[7] = t[7];
        if (n > 8) d[8] = t[8];
        if (n > 9) d[9] = t[9];
        if (n > 10) d[10] = t[10];
        if (n > 11) d[11] = t[11];
        if (n > 12) d[12] = t[12];
        if (n > 13) d[13] = t[13];
        if (n > 14) d[14] = t[14];
        if (n > 15) d[15] = t[15];
        return dst;
    }
    __CPROVER_precondition(__CPROVER_r_ok(src, n), "memmove source region readable");
    __CPROVER_precondition(__CPROVER_w_ok(dst, n), "memmove destination region writeable");
    char src_n[n];
    __CPROVER_array_copy(src_n, (char *)src);
    __CPROVER_array_replace((char *)dst, src_n);
    return dst;
}
#pragma CPROVER check pop
