#!/usr/bin/env python3
"""Stands in for `cbmc` inside the shadow Kani bundle (/verif/.target/kani-home, built by
lib/kani_home.sh): relays out the GOTO binary with lib/gbf_relayout.py (loops contiguous, see
there) and then runs the real CBMC with unchanged arguments. VERIF_RELAYOUT=0 disables the step.
If the relayout fails for any reason the original binary is used."""
import os, subprocess, sys

HERE = os.path.dirname(os.path.realpath(__file__))
REAL = os.environ.get("VERIF_REAL_CBMC") or os.path.join(os.path.expanduser("~"), ".kani", "kani-0.68.0", "bin", "cbmc")
args = sys.argv[1:]
if os.environ.get("VERIF_RELAYOUT", "1") != "0":
    for i, a in enumerate(args):
        if a.endswith(".out") and os.path.isfile(a):
            dst = a + ".relaid"
            try:
                r = subprocess.run([sys.executable, os.path.join(HERE, "gbf_relayout.py"), a, dst, "--stats"], stderr=subprocess.PIPE, timeout=600)
                note = r.stderr.decode(errors="replace").strip()[-300:]
                ok = r.returncode == 0
            except Exception as e:  # noqa
                note, ok = repr(e), False
            try:
                with open(a + ".relayout.log", "w") as f:
                    f.write(("ok " if ok else "FAILED ") + note + "\n")
            except OSError:
                pass
            if ok:
                args[i] = dst
os.execv(REAL, [REAL] + args)
