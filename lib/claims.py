"""The claims table MANIFEST.json is generated from (python3 lib/mkmanifest.py)."""

HOOK_COMMITS = [
    "85a6b47f472353aeab817961d766ca598af8ef66",
    "c11aefdad83e1dbf11174d6aeac8c572ee4a1266",
]

_K = " Claimed for the named kernels within the per-harness bounds listed in the evidence; the composition of the kernels into the whole operation is outside the claim."

CLAIMS = {
    "C01": {
        "text": "Bounded model checking of the class reader's decoding kernels: every access-flag decoder (class, field, method, inner class, parameter, four module flag types) against the JVMS bit tables for all 65536 words; branch-target resolution (opcode position + signed 16/32-bit offset, error outside 0..=65535, error on truncated operands) for all positions and offsets; switch-operand alignment from every stream position; newarray atype decoding for all 256 bytes; the constant-pool reader on an empty pool and on one numeric entry (slot accounting for long/double, typed getters succeed exactly for their tag, values big-endian, index 0 / upper half / past-the-end are errors); the tree-building class visitor stores NestHost / ModuleMainClass / SourceFile / SourceDebugExtension / Deprecated+Synthetic facts in exactly their own slot and refuses a second one. Whole-file reading is outside the claim (symbolic execution of duke::read_class does not finish even on a concrete 591-byte class)." + _K,
        "ref": "DESIGN.md §6 C01",
    },
    "C02": {
        "text": "Bounded model checking of the class writer's encoding kernels: if_helper / goto_helper / switch_helper emit bytes that, decoded by the JVMS, branch to exactly the requested target for every opcode position and target in u16 - narrow form iff the offset fits 16 bits, otherwise inverted-condition trampoline + goto_w (resp. goto_w / jsr_w), reserved slots patched later decode to the target for every later target, no arithmetic overflow; switch padding 4-aligns the operands; write_usize_as_u8/u16/u32 are exact or refuse; get_arguments_size (the invokeinterface count) equals 1 + JVMS slots on templated method descriptors; every access-flag encoder inverts its decoder. Whole-class writing (re-emission fixpoint, constant pool, attribute lengths) is outside the claim." + _K,
        "ref": "DESIGN.md §6 C02",
    },
    "C04": {
        "text": "Bounded model checking of the generic kernels every level of diff application and diff generation is built from, instantiated with one-byte keys/names: apply_diff_option equals the four-case table (4 actions x present/absent x matching/mismatching old value); Action::{from_tuple,to_tuple,flip,is_diff} laws; Names::change_name refuses namespace 0 and a mismatching old value and otherwise changes exactly one cell; apply_diff_map over maps with up to 2 targets and 2 diffs equals the reference four-case merge (additions appear, removals drop the node, edits recurse, any inconsistency refuses the whole application, untouched entries keep content and order); gen_diff_names / gen_diff_javadoc produce Add/Remove/Edit per side and apply(diff(a,b),a) == b on the cell level; zip_map_combination is the union of keys in first-seen order." + _K,
        "ref": "DESIGN.md §6 C04",
    },
    "C06": {
        "text": "Bounded model checking of the descriptor scanner map_desc through the public ARemapper default methods, against a reference scanner, on every short ASCII string: exactly the class names inside L...; are replaced by map_class(name), every other byte is preserved, a dangling L or an empty L; is refused; map_class / map_class_any fall back to the unchanged name and route array names through the descriptor path. Remappers built from a Mappings tree and the super-class search are outside the claim." + _K,
        "ref": "DESIGN.md §6 C06",
    },
    "C08": {
        "text": "Bounded model checking of the permutation and re-keying kernels of reorder: Names::<3,_>::reorder puts cell table[i] into cell i for all 27 index tables and a permutation followed by its inverse is the identity; map_with_key_from_result_iter rejects a missing or duplicate key and otherwise keeps order and content; descriptor re-expression is C06's map_desc kernel. Mappings::reorder as a composition is outside the claim." + _K,
        "ref": "DESIGN.md §6 C08",
    },
    "C09": {
        "text": "Bounded model checking of the join kernels of merge: zip_map_combination yields exactly the union of keys in first-seen order and tells A-only / B-only / both apart; merge_names places A's name in column 1 and B's in column 2 and refuses differing first names; merge_equal is equality-or-error; merge_javadoc takes the comment from whichever side has one and refuses differing comments. Mappings::merge as a composition is outside the claim." + _K,
        "ref": "DESIGN.md §6 C09",
    },
    "C11": {
        "text": "Bounded model checking of the inner-class name kernels on every valid short ASCII class name: split_inner_class_parent_and_name splits at the last $, refuses empty sides and package crossings, both halves are valid names, get_inner_class_name/parent agree, from_inner_class re-joins to the original; the contraction kernel keeps exactly the innermost simple name and leaves the source namespace untouched. extend/contract over a Mappings tree are outside the claim." + _K,
        "ref": "DESIGN.md §6 C11",
    },
    "C14": {
        "text": "Bounded model checking of the name kernels of nesting on every valid short class name over a digit/letter/_/$// alphabet: NestTypeA::new classifies anonymous / inner / local by the digit prefix; strip_local_class_prefix drops leading digits unless all are digits; rsplit_underscore cuts at the last __ and refuses cuts next to a package separator; inner_name follows its three documented cases. nest_jar, attribute synthesis and jar/mappings agreement are outside the claim." + _K,
        "ref": "DESIGN.md §6 C14",
    },
    "C16": {
        "text": "Bounded model checking of totality of the byte-level parsing kernels: with Kani's panic / overflow / bounds / unwrap checks as the assertion, the field, method and return descriptor parsers and all name predicates neither panic nor overflow on any ASCII string up to the stated length; branch-operand readers return Err on truncated or out-of-range operands for all inputs; newarray atype decoding is total; if_helper reports an over-long method instead of overflowing. The text parsers, whole class files, stack depth and allocation size are outside the claim." + _K,
        "ref": "DESIGN.md §6 C16",
    },
    "C18": {
        "text": "Bounded model checking of the descriptor and name grammar on every ASCII string up to the stated length: parse() of field / return / method descriptors succeeds iff an independent JVMS 4.3 recogniser accepts and yields the same type structure; write(parse(s)) == s; the validity predicates of ClassName, ArrClassName, ObjClassName, FieldName, MethodName, ParameterName, LocalVariableName equal the documented predicates; inner-class split/join are mutually inverse." + _K,
        "ref": "DESIGN.md §6 C18",
    },
    "C20": {
        "text": "Bounded model checking of raw_class_file's writer per attribute and per constant-pool entry (a whole ClassFile does not finish symbolic execution): for each modelled value, attribute_length equals the number of bytes that follow it, the announced _len() equals the bytes written, count fields have the JVMS width and value, entries are emitted big-endian in order; every constant-pool entry kind has its JVMS tag, size and layout; read(write(x)) == x consuming all bytes for EnclosingMethod, NestMembers, MethodParameters and Exceptions. Reading in general, and attributes with nested tables beyond those listed in the evidence, are outside the claim." + _K,
        "ref": "DESIGN.md §6 C20",
    },
}

NOT_APPLICABLE = {
    "C03": "text round trip through BufRead::lines/split/fmt and a walk of the Mappings tree; symbolic execution of tiny_v2::read on a concrete two-line file exceeds 240 s, so no bounded encoding of the real code is within reach",
    "C05": "file-system scan (std::fs::read_dir) + petgraph + the text parsers; CBMC has no model of std::fs and the graph helper is a nested fn; not encodable",
    "C07": "jar level needs zip I/O; class level walks a ClassFile tree through a private trait (larger than the Mappings tree whose one-class walk already exceeds 600 s of symbolic execution)",
    "C10": "both filters are closures nested in one method over whole Mappings/MappingsDiff trees; a one-class instance exceeds 600 s of symbolic execution and there is no separable kernel",
    "C12": "as C03 (line-oriented text I/O and a Mappings walk) plus directory walking (walkdir)",
    "C13": "the only separable kernel, merge_preserve_order::<u8-newtype>, stays undecided: with lists of length 1 and 1 the formula exceeds 12 GB even after loop relayout and with the allocator model (Peekable + next_if closures + Vec growth); everything else needs two ClassFile trees and zip I/O",
    "C15": "the predicate functions are nested inside a method that needs a jar of ClassFiles and a Mappings tree; neither can be walked symbolically within reach",
    "C17": "every clause needs a class-file read or a ClassFile::accept walk; symbolic execution of a concrete 591-byte class read exceeds 900 s",
    "C19": "the mediation kernel Forest::breadth_first_retain::<u8> exceeds 500 s on a 3-node forest; the scope table is nested in an async fn; effective POMs are async recursion; clean-up keeps a multi-entry std HashSet",
}
