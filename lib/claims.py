"""The claims table MANIFEST.json is generated from (python3 lib/mkmanifest.py)."""

HOOK_COMMITS = ["85a6b47f472353aeab817961d766ca598af8ef66"]

CLAIMS = {
    "C01": {
        "text": "Bounded model checking of the class reader's decoding kernels: every access-flag decoder (class, field, method, inner class, parameter, four module flag types) is decided against the JVMS bit tables for all 65536 words. Whole-file reading is outside the claim (symbolic execution of duke::read_class does not finish even on a concrete 591-byte class).",
        "ref": "DESIGN.md §6 C01",
    },
    "C02": {
        "text": "Bounded model checking of the class writer's encoding kernels: every access-flag encoder inverts its decoder on the JVMS-defined bits for all 65536 words. Whole-class writing is outside the claim.",
        "ref": "DESIGN.md §6 C02",
    },
    "C04": {
        "text": "Bounded model checking of the generic kernels every level of diff application is built from, instantiated with u8: apply_diff_option equals the four-case table (4 actions x present/absent x matching/mismatching old value) and Action::{from_tuple,to_tuple,flip,is_diff} satisfy their laws, for all values.",
        "ref": "DESIGN.md §6 C04",
    },
}

_UC = "check under construction in this round (planned, see DESIGN.md §6); will move to checks or get a final reason"
NOT_APPLICABLE = {
    "C03": "text round trip through BufRead::lines/split/fmt and a walk of the Mappings tree; symbolic execution of tiny_v2::read on a concrete two-line file exceeds 240 s, so no bounded encoding of the real code is within reach",
    "C05": "file-system scan (std::fs::read_dir) + petgraph + the text parsers; CBMC has no model of std::fs and the graph helper is a nested fn; not encodable",
    "C06": _UC,
    "C07": "jar level needs zip I/O; class level walks a ClassFile tree through a private trait (larger than the Mappings tree whose one-class walk already exceeds 600 s of symbolic execution)",
    "C08": _UC,
    "C09": _UC,
    "C10": "both filters are closures nested in one method over whole Mappings/MappingsDiff trees; a one-class instance exceeds 600 s of symbolic execution and there is no separable kernel",
    "C11": _UC,
    "C12": "as C03 (line-oriented text I/O and a Mappings walk) plus directory walking (walkdir)",
    "C13": _UC,
    "C14": _UC,
    "C15": "the predicate functions are nested inside a method that needs a jar of ClassFiles and a Mappings tree; neither can be walked symbolically within reach",
    "C16": _UC,
    "C17": "every clause needs a class-file read or a ClassFile::accept walk; symbolic execution of a concrete 591-byte class read exceeds 900 s",
    "C18": _UC,
    "C19": "the mediation kernel Forest::breadth_first_retain::<u8> exceeds 500 s on a 3-node forest; the scope table is nested in an async fn; effective POMs are async recursion; clean-up keeps a multi-entry std HashSet",
    "C20": _UC,
}
