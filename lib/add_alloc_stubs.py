#!/usr/bin/env python3
"""Maintenance helper: adds the allocator-model stub attributes (hstubs.rs) to every harness of the
given harness source files and `-Z stubbing` to their metadata. Idempotent."""
import re, sys
STUBS = '''	#[cfg_attr(kani, kani::stub(std::alloc::alloc, crate::hstubs::alloc_stub))]
	#[cfg_attr(kani, kani::stub(std::alloc::alloc_zeroed, crate::hstubs::alloc_zeroed_stub))]
	#[cfg_attr(kani, kani::stub(std::alloc::realloc, crate::hstubs::realloc_stub))]
	#[cfg_attr(kani, kani::stub(std::alloc::dealloc, crate::hstubs::dealloc_stub))]
'''
for p in sys.argv[1:]:
    s = open(p).read()
    s = re.sub(r'(\t#\[cfg_attr\(kani, kani::unwind\(\d+\)\)\]\n)(?!\t#\[cfg_attr\(kani, kani::stub\(std::alloc::alloc,)', lambda m: m.group(1) + STUBS, s)
    def meta(m):
        line = m.group(0)
        if '"z":' in line:
            return line
        return line.replace('"fns":', '"z":["stubbing"],"fns":', 1)
    s = re.sub(r'^//# \{.*\}$', meta, s, flags=re.M)
    open(p, "w").write(s)
