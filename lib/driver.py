#!/usr/bin/env python3
"""Driver for the solver-based checks (see /verif/DESIGN.md §3).

  ./check <PROPERTY> [--tier quick|thorough] [--jobs N]
  ./check <PROPERTY> --replay <file>          re-run a stored counterexample natively
  ./check --harness <name> [...]              run single harnesses (diagnosis; no evidence written)

Every run rebuilds the GOTO programs from /repo's current working tree (path dependencies),
runs one `cargo kani` process per harness (CBMC + CaDiCaL decide), replays every
counterexample natively against the unmodelled crates and writes evidence/<ID>.json.
"""
import argparse, json, os, re, shutil, signal, subprocess, sys, threading, time, queue, hashlib

VERIF = os.path.dirname(os.path.dirname(os.path.abspath(__file__)))
REPO = os.environ.get("VERIF_REPO", "/repo")
HSRC = os.path.join(VERIF, "harness", "src")
TARGET = os.environ.get("VERIF_TARGET", os.path.join(VERIF, ".target"))
KANI_CRATE = os.path.join(VERIF, "kani")
REPLAY_CRATE = os.path.join(VERIF, "replay")
EVID = os.environ.get("VERIF_EVIDENCE", os.path.join(VERIF, "evidence"))
KNOWN = os.path.join(VERIF, "known_findings.json")

ENV = dict(os.environ)
ENV["CARGO_NET_OFFLINE"] = "true"
# shadow Kani bundle whose `cbmc` first relays out the GOTO binary (lib/gbf_relayout.py)
KANI_HOME = os.path.join(VERIF, ".target", "kani-home")  # shared by all target dirs
ENV["KANI_HOME"] = KANI_HOME
ENV.setdefault("CARGO_TERM_COLOR", "never")

MODELS = [
    "stubs/anyhow: anyhow::Error is a zero-sized token; anyhow!/bail!/ensure! do not evaluate their format arguments; Context::{context,with_context} keep only Ok/Err and never call the closure (messages, chains, backtraces are outside every claim)",
    "stubs/indexmap: IndexMap/IndexSet are insertion-ordered vectors with linear-scan lookup through Equivalent (equal to the real crate iff k1==k2 implies hash(k1)==hash(k2))",
    "stubs/backtrace: empty crate (only so that the lock file resolves)",
]
STANDING = [
    "Kani 0.68.0 / CBMC 6.11.0 / CaDiCaL on the dev profile (debug assertions and overflow checks on); unwinding assertions on, so an insufficient loop bound is reported as UNDECIDED and never as a pass",
    "strings are ASCII (0x01..0x7F) built with JavaStr::from_semi_utf8_unchecked; modified UTF-8 / surrogates (third-party java_string crate) are outside every claim",
    "one harness per concrete instantiation of a generic function (named in the harness record)",
    "nothing is claimed outside the per-harness bound listed in coverage.samples[*].bound",
]


def log(*a):
    print(*a, flush=True)


# ------------------------------------------------------------------------------------------
# harness metadata: `//# {json}` lines in harness/src/*.rs
# ------------------------------------------------------------------------------------------
def load_specs():
    specs = {}
    for fn in sorted(os.listdir(HSRC)):
        if not fn.endswith(".rs"):
            continue
        mod = fn[:-3]
        text = open(os.path.join(HSRC, fn)).read()
        for m in re.finditer(r"^\s*//#\s*(\{.*\})\s*$", text, re.M):
            try:
                d = json.loads(m.group(1))
            except Exception as e:
                raise SystemExit(f"bad //# metadata in {fn}: {e}: {m.group(1)[:80]}")
            d["module"] = d.get("module", mod)
            d["file"] = fn
            d.setdefault("tier", "quick")
            d.setdefault("cap", 300)
            d.setdefault("z", [])
            d.setdefault("kani_args", [])
            if not re.search(r"\bfn\s+%s\s*\(" % re.escape(d["id"]), text):
                raise SystemExit(f"metadata for {d['id']} in {fn} has no matching fn")
            if d["id"] in specs:
                raise SystemExit(f"duplicate harness id {d['id']}")
            specs[d["id"]] = d
    return specs


def select(specs, prop, tier):
    out = []
    for s in specs.values():
        if prop not in s["props"]:
            continue
        if tier == "quick" and s["tier"] != "quick":
            continue
        out.append(s)
    return out


def load_known():
    if not os.path.exists(KNOWN):
        return {"findings": [], "fixed": []}
    return json.load(open(KNOWN))


# ------------------------------------------------------------------------------------------
# process helpers
# ------------------------------------------------------------------------------------------
def rss_of_group(pgid):
    total = 0
    try:
        for pid in os.listdir("/proc"):
            if not pid.isdigit():
                continue
            try:
                with open(f"/proc/{pid}/stat") as f:
                    st = f.read()
                # pgrp is field 5; comm may contain spaces -> split after ')'
                rest = st[st.rindex(")") + 2:].split()
                if int(rest[2]) != pgid:
                    continue
                total += int(rest[21]) * 4096
            except Exception:
                continue
    except Exception:
        pass
    return total


def mem_available():
    try:
        for l in open("/proc/meminfo"):
            if l.startswith("MemAvailable:"):
                return int(l.split()[1]) * 1024
    except Exception:
        pass
    return 1 << 40


def run_capped(cmd, cwd, cap_s, mem_gb, logfile, env=None):
    """Runs cmd in its own process group; kills the group on timeout or when RSS exceeds mem_gb.
    Returns (status, output, seconds, peak_rss) where status in ok/timeout/oom/<exit code>."""
    t0 = time.time()
    with open(logfile, "w") as lf:
        p = subprocess.Popen(cmd, cwd=cwd, stdout=lf, stderr=subprocess.STDOUT, env=env or ENV, start_new_session=True)
        status = None
        peak = 0
        while True:
            try:
                p.wait(timeout=2)
                break
            except subprocess.TimeoutExpired:
                pass
            el = time.time() - t0
            rss = rss_of_group(p.pid)
            peak = max(peak, rss)
            if el > cap_s:
                status = "timeout"
            elif rss > mem_gb * (1 << 30):
                status = "oom"
            elif rss > (2 << 30) and mem_available() < (3 << 30):
                status = "oom"  # the machine as a whole is about to run out of memory (no swap)
            if status:
                try:
                    os.killpg(p.pid, signal.SIGKILL)
                except Exception:
                    pass
                p.wait()
                break
    out = open(logfile, errors="replace").read()
    if status is None:
        status = "ok" if p.returncode == 0 else str(p.returncode)
    return status, out, time.time() - t0, peak


# ------------------------------------------------------------------------------------------
# build
# ------------------------------------------------------------------------------------------
def materialise_crates():
    """With VERIF_REPO pointing somewhere else than /repo (evaluation of seeded defects in scratch
    worktrees, several at a time) the two harness crates are re-created under TARGET with their
    path dependencies rewritten; the harness sources themselves are shared."""
    global KANI_CRATE, REPLAY_CRATE
    if os.path.realpath(REPO) == "/repo":
        return
    for name in ("kani", "replay"):
        src = os.path.join(VERIF, name, "Cargo.toml")
        dst_dir = os.path.join(TARGET, "crate-" + name)
        os.makedirs(dst_dir, exist_ok=True)
        t = open(src).read()
        t = t.replace('"/repo/', '"' + REPO.rstrip("/") + "/")
        t = t.replace('"../harness/', '"' + VERIF + "/harness/").replace('"../stubs/', '"' + VERIF + "/stubs/")
        with open(os.path.join(dst_dir, "Cargo.toml"), "w") as f:
            f.write(t)
        if name == "kani":
            KANI_CRATE = dst_dir
        else:
            REPLAY_CRATE = dst_dir


def sync_lock(crate):
    """The harness crates resolve exactly the versions /repo's lock file pins."""
    src = os.path.join(REPO, "Cargo.lock")
    dst = os.path.join(crate, "Cargo.lock")
    shutil.copyfile(src, dst)


def kani_cmd(target_dir, harness=None, extra=()):
    cmd = ["cargo", "kani", "--target-dir", target_dir]
    if harness:
        cmd += ["--harness", harness, "--exact"]
    cmd += list(extra)
    return cmd


def ensure_kani_home():
    import fcntl
    os.makedirs(os.path.join(VERIF, ".target"), exist_ok=True)
    with open(os.path.join(VERIF, ".target", ".home.lock"), "w") as lk:
        fcntl.flock(lk, fcntl.LOCK_EX)
        _ensure_kani_home()


def _ensure_kani_home():
    if not all(os.path.exists(os.path.join(KANI_HOME, "kani-0.68.0", "bin", b)) for b in ("cbmc", "goto-cc", "kani-compiler")):
        subprocess.run([os.path.join(VERIF, "lib", "kani_home.sh"), VERIF], check=True)


def base_build(specs, logdir):
    """One `cargo kani --only-codegen` of the harness crate: compiles /repo's crates (current
    working tree) and the harnesses to GOTO. Worker target dirs are copies of this one."""
    sync_lock(KANI_CRATE)
    ensure_kani_home()
    base = os.path.join(TARGET, "kani-base")
    os.makedirs(base, exist_ok=True)
    z = sorted({f for s in specs for f in s["z"]})
    cmd = kani_cmd(base, extra=["--only-codegen"] + sum((["-Z", f] for f in z), []))
    for s in specs[:1]:  # one filter keeps codegen short; each worker re-codegens its own harness
        cmd += ["--harness", f"{s['module']}::{s['id']}", "--exact"]
    t0 = time.time()
    st, out, secs, _ = run_capped(cmd, KANI_CRATE, 1800, 48, os.path.join(logdir, "build.log"))
    if st != "ok":
        lines = out.splitlines()
        keep = []
        for i, l in enumerate(lines):
            if l.startswith("error"):
                keep += lines[i:i + 6]
        tail = "\n".join(keep[:60])
        log(f"BUILD-FAILED (status {st}) see {logdir}/build.log\n{tail}")
        return None, secs
    return base, secs


def build_replay(logdir):
    sync_lock(REPLAY_CRATE)
    tdir = os.path.join(TARGET, "replay")
    bins = {}
    for prof in ("dev", "release"):
        cmd = ["cargo", "build", "--offline", "--target-dir", tdir, "--bin", "replay"] + (["--release"] if prof == "release" else [])
        st, out, secs, _ = run_capped(cmd, REPLAY_CRATE, 1800, 48, os.path.join(logdir, f"replay-build-{prof}.log"))
        if st != "ok":
            log(f"REPLAY-BUILD-FAILED profile={prof}; see {logdir}/replay-build-{prof}.log")
            return None
        bins[prof] = os.path.join(tdir, "debug" if prof == "dev" else "release", "replay")
    return bins


# ------------------------------------------------------------------------------------------
# running one harness
# ------------------------------------------------------------------------------------------
RE_SUMMARY = re.compile(r"\*\* (\d+) of (\d+) failed(?: \((.*?)\))?")
RE_COVER = re.compile(r"\*\* (\d+) of (\d+) cover properties satisfied")
RE_VTIME = re.compile(r"Verification Time: ([0-9.]+)s")


def parse_kani(out):
    r = {"verdict": None, "checks": 0, "failed": 0, "covers": 0, "covers_sat": 0, "solver_s": None, "failed_checks": [], "unwind_fail": False}
    m = RE_SUMMARY.search(out)
    if m:
        r["failed"], r["checks"] = int(m.group(1)), int(m.group(2))
    m = RE_COVER.search(out)
    if m:
        r["covers_sat"], r["covers"] = int(m.group(1)), int(m.group(2))
    m = RE_VTIME.search(out)
    if m:
        r["solver_s"] = float(m.group(1))
    if "VERIFICATION:- SUCCESSFUL" in out:
        r["verdict"] = "SUCCESSFUL"
    elif "VERIFICATION:- FAILED" in out:
        r["verdict"] = "FAILED"
    for m in re.finditer(r"Failed Checks: (.*)\n\s*File: \"([^\"]*)\", line (\d+), in (\S+)", out):
        r["failed_checks"].append({"desc": m.group(1).strip(), "file": m.group(2), "line": int(m.group(3)), "fn": m.group(4)})
    for m in re.finditer(r"Failed Checks: (.*)", out):
        d = m.group(1).strip()
        if not any(fc["desc"] == d for fc in r["failed_checks"]):
            r["failed_checks"].append({"desc": d, "file": "", "line": 0, "fn": ""})
    descs = [fc["desc"] for fc in r["failed_checks"]]
    r["unwind_fail"] = any("unwinding assertion" in d for d in descs)
    r["only_unwind"] = bool(descs) and all(("unwinding assertion" in d) for d in descs)
    r["unsupported"] = [d for d in descs if "is not currently supported by Kani" in d or "unsupported" in d.lower()]
    r["cbmc_error"] = ("CBMC failed" in out) or ("Status: ERROR" in out) or ("out of memory" in out.lower())
    # cover witnesses that were not satisfied
    r["covers_unsat"] = re.findall(r"Description: \"([^\"]*)\"\n[^\n]*\n?", "")  # filled below
    unsat = []
    for m in re.finditer(r"Check \d+: \S*cover\.\d+\n\s*- Status: (\w+)\n\s*- Description: \"([^\"]*)\"", out):
        if m.group(1) != "SATISFIED":
            unsat.append(m.group(2))
    r["covers_unsat"] = unsat
    return r


def parse_playback(out):
    """-> list of {'kind': 'cover'|'assertion'|..., 'desc': str, 'values': [[u8]]}"""
    tests = []
    for m in re.finditer(r"/// Check for `([^`]*)`: \"(.*?)\"\s*\n(.*?)kani::concrete_playback_run", out, re.S):
        kind, desc, body = m.group(1), m.group(2).strip('"'), m.group(3)
        vals = []
        for v in re.finditer(r"vec!\[([0-9,\s]*)\],", body):
            inner = v.group(1).strip()
            vals.append([int(x) for x in inner.split(",") if x.strip()] if inner else [])
        tests.append({"kind": kind, "desc": desc, "values": vals})
    return tests


class Runner:
    def __init__(self, base, logdir, jobs, mem_gb):
        self.base, self.logdir, self.jobs, self.mem_gb = base, logdir, jobs, mem_gb
        self.lock = threading.Lock()

    def prepare(self, n):
        """Private copies of the base target dir: concurrent `cargo kani` runs with different
        harness filters overwrite each other's metadata in a shared one."""
        self.dirs = []
        # worker dirs left behind by runs that were killed
        for d in os.listdir(TARGET):
            m = re.match(r"kani-w(\d+)-\d+$", d)
            if m and not os.path.exists(f"/proc/{m.group(1)}"):
                shutil.rmtree(os.path.join(TARGET, d), ignore_errors=True)
        for i in range(max(1, n)):
            d = os.path.join(TARGET, f"kani-w{os.getpid()}-{i}")
            shutil.rmtree(d, ignore_errors=True)
            subprocess.run(["cp", "-a", self.base, d], check=True)
            self.dirs.append(d)

    def worker_dir(self, i):
        return self.dirs[i]

    def run_one(self, spec, tdir, playback=False, cap=None, suffix=""):
        h = f"{spec['module']}::{spec['id']}"
        extra = sum((["-Z", f] for f in spec["z"]), []) + list(spec["kani_args"])
        if playback:
            extra += ["-Z", "concrete-playback", "--concrete-playback=print"]
        cmd = kani_cmd(tdir, h, extra)
        lf = os.path.join(self.logdir, f"{spec['id']}{suffix}.log")
        env = dict(ENV)
        # harness metadata "lib":"verif": link lib/kani_lib/kani_lib.c instead of Kani's C model library
        env["VERIF_KANI_LIB"] = "verif" if spec.get("lib") == "verif" else "stock"
        env["VERIF_RELAYOUT"] = "1" if spec.get("relayout", True) and os.environ.get("VERIF_RELAYOUT", "1") != "0" else "0"
        # the concrete-playback run makes kani-driver hold CBMC's whole JSON trace in memory (> 12 GB for the
        # jump-helper harnesses): it gets three times the memory cap
        st, out, secs, peak = run_capped(cmd, KANI_CRATE, cap or spec["cap"], self.mem_gb * (3 if playback else 1), lf, env=env)
        r = parse_kani(out)
        r.update({"status": st, "wall_s": round(secs, 2), "peak_rss_mb": peak >> 20, "log": lf, "cmd": " ".join(cmd)})
        if playback:
            r["playback"] = parse_playback(out)
        if "error: Failed to match the following harness" in out or "error: no harnesses matched" in out:
            r["status"] = "nomatch"
        if re.search(r"^error(\[E\d+\])?:", out, re.M) and r["verdict"] is None and st not in ("timeout", "oom"):
            r["status"] = "builderror"
        return r

    def run_all(self, specs, want_playback_for_covers=False):
        results = {}
        q = queue.Queue()
        # longest caps first
        for s in sorted(specs, key=lambda s: -s["cap"]):
            q.put(s)
        n = max(1, min(self.jobs, len(specs)))

        def work(i):
            tdir = None
            while True:
                try:
                    s = q.get_nowait()
                except queue.Empty:
                    break
                if tdir is None:
                    tdir = self.worker_dir(i)
                r = self.run_one(s, tdir)
                if r["verdict"] == "FAILED" and not r["only_unwind"] and r["status"] not in ("timeout", "oom"):
                    # second run for the concrete trace
                    r2 = self.run_one(s, tdir, playback=True, cap=max(s["cap"], 120) * 2, suffix=".playback")
                    r["playback"] = r2.get("playback", [])
                    r["playback_status"] = r2["status"]
                elif want_playback_for_covers and r["verdict"] == "SUCCESSFUL" and r["covers"] and r["wall_s"] < 60 and s.get("cover_playback", True):
                    # optional: concrete inputs for the cover witnesses, replayed natively afterwards. Bounded
                    # tightly - kani-driver can take minutes to post-process the traces of a 40 s harness.
                    r2 = self.run_one(s, tdir, playback=True, cap=min(180, 4 * r["wall_s"] + 60), suffix=".playback")
                    r["playback"] = r2.get("playback", [])
                with self.lock:
                    results[s["id"]] = r
                    log(f"  [{s['id']}] {classify(r)} checks={r['checks']} covers={r['covers_sat']}/{r['covers']} wall={r['wall_s']}s solver={r['solver_s']}s rss={r['peak_rss_mb']}MB")
            if tdir:
                shutil.rmtree(tdir, ignore_errors=True)

        ts = [threading.Thread(target=work, args=(i,)) for i in range(n)]
        for t in ts:
            t.start()
        for t in ts:
            t.join()
        return results


def classify(r):
    if r["status"] == "timeout":
        return "UNDECIDED(timeout)"
    if r["status"] == "oom":
        return "UNDECIDED(memory)"
    if r["status"] in ("nomatch", "builderror"):
        return "ERROR(" + r["status"] + ")"
    if r["verdict"] == "SUCCESSFUL":
        if r["covers_sat"] < r["covers"]:
            return "VACUOUS"
        return "PASS"
    if r["verdict"] == "FAILED":
        if r["cbmc_error"] and not r["failed_checks"]:
            return "UNDECIDED(cbmc-error)"
        if r["only_unwind"]:
            return "UNDECIDED(unwind-bound)"
        if r["unsupported"] and len(r["unsupported"]) == len(r["failed_checks"]):
            return "UNDECIDED(unsupported-construct)"
        return "FAILED"
    return "UNDECIDED(no-verdict)"


# ------------------------------------------------------------------------------------------
# replay
# ------------------------------------------------------------------------------------------
def write_trace(prop, spec, test, tier, seed):
    d = os.path.join(EVID, "replay")
    os.makedirs(d, exist_ok=True)
    key = hashlib.sha1(json.dumps(test["values"]).encode()).hexdigest()[:10]
    path = os.path.join(d, f"{prop}-{spec['id']}-{key}.json")
    rec = {"property": prop, "harness": spec["id"], "module": spec["module"], "check": test["desc"], "kind": test["kind"],
           "tier": tier, "seed": seed, "decoded": [int.from_bytes(bytes(v), "little") for v in test["values"]], "values": test["values"]}
    with open(path, "w") as f:
        json.dump(rec, f, indent=1)
    return path


def native_replay(bins, harness_id, path):
    """-> dict profile -> 'reproduced' | 'not-reproduced' | 'misfit' | 'error' """
    res = {}
    for prof, b in bins.items():
        try:
            p = subprocess.run([b, harness_id, path], stdout=subprocess.PIPE, stderr=subprocess.STDOUT, timeout=120, env=ENV)
            res[prof] = {0: "not-reproduced", 1: "reproduced", 3: "misfit"}.get(p.returncode, "reproduced" if p.returncode < 0 or p.returncode in (101, 134) else "error")
            res[prof + "_output"] = p.stdout.decode(errors="replace")[-400:]
        except subprocess.TimeoutExpired:
            res[prof] = "reproduced-hang"
    return res


# ------------------------------------------------------------------------------------------
# main check
# ------------------------------------------------------------------------------------------
def check_property(prop, tier, jobs, seed, mem_gb, only=None, write_evidence=True):
    t0 = time.time()
    specs_all = load_specs()
    specs = select(specs_all, prop, tier)
    if only:
        specs = [s for s in specs_all.values() if s["id"] in only]
    if not specs:
        log(f"no harnesses for {prop}")
        return 2
    logdir = os.path.join(EVID, "logs", f"{prop}-{tier}" + (f"-{os.getpid()}" if only else ""))
    shutil.rmtree(logdir, ignore_errors=True)
    os.makedirs(logdir, exist_ok=True)
    log(f"== {prop} tier={tier} seed={seed} harnesses={len(specs)} jobs={jobs} repo={REPO}")
    import fcntl
    os.makedirs(TARGET, exist_ok=True)
    materialise_crates()
    lockf = open(os.path.join(TARGET, ".base.lock"), "w")
    fcntl.flock(lockf, fcntl.LOCK_EX)  # the base target dir is shared between concurrent ./check runs
    try:
        base, build_s = base_build(specs, logdir)
        runner = None
        if base is not None:
            runner = Runner(base, logdir, jobs, mem_gb)
            runner.prepare(min(jobs, len(specs)))
    finally:
        fcntl.flock(lockf, fcntl.LOCK_UN)
        lockf.close()
    if base is None:
        # the harness crate does not compile against the current tree: nothing can be said
        if write_evidence:
            write_evidence_file(prop, tier, seed, specs, {}, [], [], time.time() - t0, build_s, note="harness crate failed to build against the current tree")
        return 2
    log(f"  build {build_s:.1f}s")
    results = runner.run_all(specs, want_playback_for_covers=True)

    known = load_known()
    violations, known_hits, undecided, mismatches = [], [], [], []
    unreplayed = False
    bins = None
    traces_validated = 0
    for s in specs:
        r = results[s["id"]]
        c = classify(r)
        r["class"] = c
        if c == "FAILED" or (c == "PASS" and r.get("playback")):
            if bins is None:
                bins = build_replay(logdir)
            if bins is None:
                undecided.append((s, "replay crate failed to build"))
                continue
        if c == "PASS":
            # validate the cover witnesses natively: the trace found over the model crates must run
            # through the real crates without tripping any assertion
            for t in r.get("playback", []):
                if t["kind"] != "cover":
                    continue
                path = write_trace(prop, s, t, tier, seed)
                rr = native_replay(bins, s["id"], path)
                t["native"] = {k: v for k, v in rr.items() if not k.endswith("_output")}
                if rr.get("dev") == "not-reproduced" and rr.get("release") == "not-reproduced":
                    traces_validated += 1
                    os.remove(path)
                else:
                    mismatches.append((s, t, path, rr))
        elif c == "FAILED":
            reproduced = None
            tests = [t for t in r.get("playback", []) if t["kind"] != "cover"]
            for t in tests:
                path = write_trace(prop, s, t, tier, seed)
                rr = native_replay(bins, s["id"], path)
                t["native"] = {k: v for k, v in rr.items() if not k.endswith("_output")}
                t["path"] = path
                if any(str(rr.get(p, "")).startswith("reproduced") for p in ("dev", "release")):
                    reproduced = (t, path, rr)
                    break
            if reproduced:
                t, path, rr = reproduced
                kf = match_known(known, prop, s, t, r)
                if kf:
                    known_hits.append((s, kf, path))
                else:
                    violations.append((s, t, path, rr))
            elif tests:
                mismatches.append((s, tests[0], tests[0]["path"], {}))
            else:
                # the verdict is FAILED but no concrete trace could be extracted (playback run capped or crashed):
                # neither a confirmed violation nor a model mismatch
                undecided.append((s, f"FAILED-BUT-UNREPLAYED(playback {r.get('playback_status')}; failed checks: {[fc['desc'] for fc in r['failed_checks']][:3]})"))
                unreplayed = True
        elif c.startswith("UNDECIDED") or c == "VACUOUS" or c.startswith("ERROR"):
            undecided.append((s, c))

    for s, kf, path in known_hits:
        log(f"KNOWN-FINDING: property={prop} {kf['description']}")
    for s, c in undecided:
        log(f"UNDECIDED harness={s['id']} reason={c}")
    for s, t, path, rr in mismatches:
        log(f"MODEL-MISMATCH harness={s['id']} check={t['desc'] if t else '?'} trace={path} native={ {k: v for k, v in rr.items() if not k.endswith('_output')} }")
    for s, t, path, rr in violations:
        profs = ",".join(p for p in ("dev", "release") if str(rr.get(p, "")).startswith("reproduced"))
        log(f"VIOLATION property={prop} replay={path}")
        log(f"  harness={s['id']} failed-check={t['desc']!r} reproduced-natively-in={profs} inputs={[int.from_bytes(bytes(v), 'little') for v in t['values']]}")
    wall = time.time() - t0
    if write_evidence:
        write_evidence_file(prop, tier, seed, specs, results, violations, known_hits, wall, build_s, traces_validated=traces_validated,
                            undecided=undecided, mismatches=mismatches)
    npass = sum(1 for s in specs if results[s["id"]]["class"] == "PASS")
    log(f"== {prop}: pass={npass}/{len(specs)} undecided={len(undecided)} known={len(known_hits)} violations={len(violations)} mismatches={len(mismatches)} wall={wall:.0f}s")
    if violations:
        return 1
    if mismatches or unreplayed:
        return 2
    if npass == 0 and not known_hits:
        return 2
    return 0


def match_known(known, prop, spec, test, result):
    for kf in known.get("findings", []):
        if kf.get("property") != prop or kf.get("harness") != spec["id"]:
            continue
        pat = kf.get("failed_check")
        if pat and not re.search(pat, test["desc"]):
            continue
        return kf
    return None


def write_evidence_file(prop, tier, seed, specs, results, violations, known_hits, wall, build_s, traces_validated=0, undecided=(), mismatches=(), note=None):
    os.makedirs(EVID, exist_ok=True)
    samples = []
    obligations = discharged = covers = covers_sat = 0
    solver_s = 0.0
    fns = []
    for s in specs:
        r = results.get(s["id"])
        rec = {"harness": f"{s['module']}::{s['id']}", "bound": s.get("bound", ""), "functions": s.get("fns", []), "tier": s["tier"]}
        if s.get("stubs"):
            rec["stubs"] = s["stubs"]
        if r:
            rec.update({"verdict": r["class"], "cbmc_checks": r["checks"], "cbmc_checks_failed": r["failed"], "cover_witnesses": f"{r['covers_sat']}/{r['covers']}",
                        "solver_s": r["solver_s"], "wall_s": r["wall_s"], "peak_rss_mb": r["peak_rss_mb"]})
            ren = {"not-reproduced": "harness ran natively on these inputs without any failure", "reproduced": "FAILED natively", "misfit": "inputs do not fit the harness natively"}
            w = [{"witness": t["desc"], "inputs": [int.from_bytes(bytes(v), "little") for v in t["values"]],
                  "native_replay": {k: ren.get(v, v) for k, v in (t.get("native") or {}).items()}} for t in r.get("playback", []) if t["kind"] == "cover"]
            if w:
                rec["witness_inputs"] = w
            obligations += 1
            if r["class"] == "PASS":
                discharged += 1
                covers += r["covers"]
                covers_sat += r["covers_sat"]
            solver_s += r["solver_s"] or 0
        for f in s.get("fns", []):
            if f not in fns:
                fns.append(f)
        samples.append(rec)
    total_checks = sum((results[s["id"]]["checks"] + results[s["id"]]["covers"]) for s in specs if s["id"] in results and results[s["id"]]["class"] == "PASS")
    ev = {
        "property_id": prop, "tier": tier, "seed": seed, "level": "model_checking",
        "coverage": {
            "evaluations": total_checks,
            "distinct_nontrivial": covers_sat,
            "rule": "evaluations = CBMC properties (assertions, panics, overflow/bounds/pointer checks, unwinding assertions, cover witnesses) decided by the SAT solver over ALL inputs inside each harness bound, summed over harnesses that came back SUCCESSFUL; distinct_nontrivial = cover witnesses (named interesting input regions) the solver proved reachable; a harness that timed out, ran out of memory or hit its unwinding bound is listed as UNDECIDED and contributes nothing",
            "samples": samples,
            "obligations": obligations, "discharged": discharged,
            "traces_validated_against_impl": traces_validated,
            "checker_cmd": "cargo kani --harness <module>::<harness> --exact (one process per harness; CBMC 6.11.0, CaDiCaL)",
            "trusted_base": MODELS,
            "functions_encoded": fns,
            "solver_time_s": round(solver_s, 2), "build_time_s": round(build_s, 1),
            "undecided": [{"harness": s["id"], "reason": c} for s, c in undecided],
            "model_mismatches": [{"harness": s["id"], "trace": p} for s, t, p, rr in mismatches],
            "known_findings_hit": [{"harness": s["id"], "finding": kf["description"]} for s, kf, p in known_hits],
            "exhaustive": False,
            "explanation": "bounded symbolic execution of the compiled /repo code (Kani -> GOTO -> CBMC -> SAT); every verdict quantifies over all inputs inside the stated bound, nothing outside it",
        },
        "assumptions": STANDING + MODELS,
        "wall_s": round(wall, 2),
        "violations": len(violations),
    }
    if note:
        ev["coverage"]["note"] = note
    # schema: generic fallback needs evaluations>=1, distinct_nontrivial>=2 – if the run decided nothing we still write what happened
    with open(os.path.join(EVID, f"{prop}.json"), "w") as f:
        json.dump(ev, f, indent=1)


def replay_file(prop, path):
    logdir = os.path.join(EVID, "logs", f"{prop}-replay")
    os.makedirs(logdir, exist_ok=True)
    rec = json.load(open(path))
    os.makedirs(TARGET, exist_ok=True)
    materialise_crates()
    bins = build_replay(logdir)
    if not bins:
        return 2
    rr = native_replay(bins, rec["harness"], path)
    for prof in ("dev", "release"):
        log(f"replay[{prof}] {rr.get(prof)}: {rr.get(prof + '_output', '').strip()}")
    if any(str(rr.get(p, "")).startswith("reproduced") for p in ("dev", "release")):
        log(f"VIOLATION property={rec.get('property', prop)} replay={path}")
        return 1
    return 0


def main():
    ap = argparse.ArgumentParser()
    ap.add_argument("prop", nargs="?")
    ap.add_argument("--tier", default=os.environ.get("VERIF_TIER", "quick"), choices=["quick", "thorough"])
    ap.add_argument("--jobs", type=int, default=int(os.environ.get("VERIF_JOBS", "0")), help="parallel harness processes; default 16 (quick) / 8 (thorough)")
    ap.add_argument("--mem-gb", type=float, default=float(os.environ.get("VERIF_MEM_GB", "0")), help="RSS cap per harness process; default 12 (quick) / 24 (thorough)")
    ap.add_argument("--replay")
    ap.add_argument("--harness", action="append")
    ap.add_argument("--list", action="store_true")
    a = ap.parse_args()
    seed = int(os.environ.get("VERIF_SEED", "0"))
    if not a.mem_gb:
        a.mem_gb = 24.0 if a.tier == "thorough" else 12.0
    if not a.jobs:
        a.jobs = 8 if a.tier == "thorough" else 16
    if a.list:
        for s in load_specs().values():
            print(s["id"], s["props"], s["tier"], s["cap"])
        return 0
    if a.replay:
        return replay_file(a.prop or "?", a.replay)
    if a.harness:
        return check_property(a.prop or "ADHOC", a.tier, a.jobs, seed, a.mem_gb, only=a.harness, write_evidence=False)
    if not a.prop:
        ap.error("property id required")
    return check_property(a.prop, a.tier, a.jobs, seed, a.mem_gb)


if __name__ == "__main__":
    sys.exit(main())
