#!/usr/bin/env python3
"""Stands in for `goto-cc` inside the shadow Kani bundle. With VERIF_KANI_LIB=verif the C model
library Kani links into every harness (library/kani/kani_lib.c) is replaced by
lib/kani_lib/kani_lib.c (allocator with slack, exact small memcpy; see that file); everything else
is passed through unchanged."""
import os, sys

HERE = os.path.dirname(os.path.realpath(__file__))
REAL = os.environ.get("VERIF_REAL_GOTO_CC") or os.path.join(os.path.expanduser("~"), ".kani", "kani-0.68.0", "bin", "goto-cc")
args = sys.argv[1:]
if os.environ.get("VERIF_KANI_LIB") == "verif":
    args = [os.path.join(HERE, "kani_lib", "kani_lib.c") if a.endswith("library/kani/kani_lib.c") else a for a in args]
os.execv(REAL, [REAL] + args)
