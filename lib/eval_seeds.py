#!/usr/bin/env python3
"""Runs the registered quick check of a seeded defect's property against the defect (DESIGN.md §9).

  lib/eval_seeds.py [--parallel K] [--jobs J] [--props C04,C09] [seed-id ...]     (default: all of /verif/seeded)

Each seed is applied in its own scratch worktree of /repo (under /tmp/evalseed, removed afterwards
together with its build output); the check runs with VERIF_REPO pointing at that worktree, so that
several seeds can be evaluated at once and /repo itself is never modified. Result:
/verif/seeded/<id>/result.json  {"caught": bool, "exit": n, "violations": [...], "harnesses": [...]}.
The prescribed single-seed procedure (git -C /repo apply; ./check; git -C /repo checkout -- .) gives
the same verdicts; it is what `--in-place` does (one seed at a time)."""
import argparse, json, os, re, shutil, subprocess, sys, threading, queue, time

VERIF = os.path.dirname(os.path.dirname(os.path.abspath(__file__)))
SEEDED = os.path.join(VERIF, "seeded")
SCRATCH = "/tmp/evalseed"


ONLY = []


def run_check(prop, env, jobs, tier):
    extra = sum((["--harness", h] for h in ONLY), [])
    p = subprocess.run([os.path.join(VERIF, "check"), prop, "--tier", tier, "--jobs", str(jobs)] + extra, cwd=VERIF, env=env,
                       stdout=subprocess.PIPE, stderr=subprocess.STDOUT, text=True)
    return p.returncode, p.stdout


def evaluate(sid, jobs, in_place, extra_props, tier):
    d = os.path.join(SEEDED, sid)
    meta = json.load(open(os.path.join(d, "meta.json")))
    props = [meta["property"]] + [p for p in extra_props if p != meta["property"]]
    t0 = time.time()
    env = dict(os.environ)
    if in_place:
        repo = "/repo"
        subprocess.run(["git", "-C", repo, "apply", os.path.join(d, "patch.diff")], check=True)
    else:
        repo = os.path.join(SCRATCH, sid)
        shutil.rmtree(repo, ignore_errors=True)
        os.makedirs(SCRATCH, exist_ok=True)
        subprocess.run(["git", "-C", "/repo", "worktree", "add", "--detach", "-q", repo, "HEAD"], check=True)
        subprocess.run(["git", "-C", repo, "apply", os.path.join(d, "patch.diff")], check=True)
        env.update(VERIF_REPO=repo, VERIF_TARGET=repo + "-target", VERIF_EVIDENCE=repo + "-evid")
    results = {}
    try:
        for prop in props:
            rc, out = run_check(prop, env, jobs, tier)
            results[prop] = {
                "exit": rc,
                "violations": [l for l in out.splitlines() if l.startswith("VIOLATION")],
                "failing_harnesses": re.findall(r"^  harness=(\S+) failed-check=(.*?) reproduced", out, re.M),
                "undecided": re.findall(r"^UNDECIDED harness=(\S+)", out, re.M),
                "mismatch": re.findall(r"^MODEL-MISMATCH harness=(\S+)", out, re.M),
                "summary": (re.findall(r"^== .*: pass=.*$", out, re.M) or [""])[-1],
                "tail": out[-600:] if rc not in (0, 1) else "",
            }
    finally:
        if in_place:
            subprocess.run(["git", "-C", "/repo", "checkout", "--", "."], check=True)
        else:
            subprocess.run(["git", "-C", "/repo", "worktree", "remove", "--force", repo])
            shutil.rmtree(repo + "-target", ignore_errors=True)
            shutil.rmtree(repo + "-evid", ignore_errors=True)
    own = results[meta["property"]]
    rec = {"seed": sid, "property": meta["property"], "tier": tier, "caught": own["exit"] == 1 and bool(own["violations"]),
           "caught_by_other_property": [p for p in props[1:] if results[p]["exit"] == 1 and results[p]["violations"]],
           "results": results, "wall_s": round(time.time() - t0, 1),
           "how": "in place: git -C /repo apply; ./check; git -C /repo checkout -- ." if in_place else "scratch worktree + VERIF_REPO",
           "only_harnesses": list(ONLY)}
    json.dump(rec, open(os.path.join(d, f"result-{tier}.json" if tier != "quick" else "result.json"), "w"), indent=1)
    print(f"{sid}: {'CAUGHT' if rec['caught'] else 'missed'} exit={own['exit']} {[h for h, _ in own['failing_harnesses']]} {own['summary']} ({rec['wall_s']}s)", flush=True)


def table():
    rows = []
    for sid in sorted(os.listdir(SEEDED)):
        d = os.path.join(SEEDED, sid)
        try:
            meta = json.load(open(os.path.join(d, "meta.json")))
        except Exception:
            continue
        res = None
        if os.path.exists(os.path.join(d, "result.json")):
            res = json.load(open(os.path.join(d, "result.json")))
        thor = None
        if os.path.exists(os.path.join(d, "result-thorough.json")):
            thor = json.load(open(os.path.join(d, "result-thorough.json")))
        summary = (meta.get("summary") or "").replace("|", "/").replace("\n", " ")
        summary = summary[:150] + ("..." if len(summary) > 150 else "")
        if res is None:
            verdict, by = "not run", ""
        elif res["caught"]:
            own = res["results"][res["property"]]
            verdict, by = "**caught** (quick)", ", ".join(sorted({h for h, _ in own["failing_harnesses"]}))
        elif thor is not None and thor["caught"]:
            own = thor["results"][thor["property"]]
            verdict, by = "caught (thorough only)", ", ".join(sorted({h for h, _ in own["failing_harnesses"]}))
        else:
            verdict, by = "missed", meta.get("why_missed", "")
        rows.append(f"| {sid} | {summary} | {verdict} | {by} |")
    print("| seed | change | verdict | harnesses that fail / why it is missed |")
    print("|---|---|---|---|")
    print("\n".join(rows))


def main():
    if "--table" in sys.argv:
        return table()
    ap = argparse.ArgumentParser()
    ap.add_argument("seeds", nargs="*")
    ap.add_argument("--parallel", type=int, default=3)
    ap.add_argument("--jobs", type=int, default=5)
    ap.add_argument("--in-place", action="store_true")
    ap.add_argument("--also", default="", help="comma separated further properties to run against every seed")
    ap.add_argument("--tier", default="quick")
    ap.add_argument("--harnesses", default="", help="comma separated: run only these harnesses (any tier) instead of the registered command; result goes to result-thorough.json")
    a = ap.parse_args()
    if a.harnesses:
        ONLY.extend(a.harnesses.split(","))
        a.tier = "thorough"
    seeds = a.seeds or sorted(os.listdir(SEEDED))
    extra = [p for p in a.also.split(",") if p]
    q = queue.Queue()
    for s in seeds:
        q.put(s)

    def work():
        while True:
            try:
                s = q.get_nowait()
            except queue.Empty:
                return
            try:
                evaluate(s, a.jobs, a.in_place, extra, a.tier)
            except Exception as e:  # noqa
                print(f"{s}: ERROR {e!r}", flush=True)

    n = 1 if a.in_place else max(1, a.parallel)
    ts = [threading.Thread(target=work) for _ in range(n)]
    for t in ts:
        t.start()
    for t in ts:
        t.join()


if __name__ == "__main__":
    main()
