#!/usr/bin/env python3
"""Confirms seeded defects delivered by the mutation agents (DESIGN.md §9) in a scratch worktree:
  with the patch: workspace builds and the whole test suite passes; the demonstration fails;
  without it: the demonstration passes.
usage: confirm_seeds.py <agent-out-dir> <seed-id> ...   e.g. /tmp/seed/C02/out/m1 C02-m1
Writes /verif/seeded/<seed-id>/{patch.diff,demo_test.rs,meta.json}. Scratch: /tmp/confirm (removed by the caller)."""
import json, os, re, shutil, subprocess, sys

WT = "/tmp/confirm/wt"
ENV = dict(os.environ, CARGO_NET_OFFLINE="true", CARGO_TARGET_DIR="/tmp/confirm/target", CARGO_BUILD_JOBS="6")


def sh(cmd, **kw):
    return subprocess.run(cmd, shell=True, cwd=WT, env=ENV, stdout=subprocess.PIPE, stderr=subprocess.STDOUT, text=True, **kw)


def suite():
    r = sh("cargo test --workspace --no-fail-fast --offline 2>&1")
    passed = sum(int(x) for x in re.findall(r"test result: \w+\. (\d+) passed", r.stdout))
    failed = sum(int(x) for x in re.findall(r"test result: \w+\. \d+ passed; (\d+) failed", r.stdout))
    return r.returncode, passed, failed, r.stdout[-1500:]


def main():
    if not os.path.exists(WT):
        os.makedirs("/tmp/confirm", exist_ok=True)
        subprocess.run(["git", "-C", "/repo", "worktree", "add", "--detach", WT, "HEAD", "-q"], check=True)
    args = sys.argv[1:]
    for src, sid in zip(args[0::2], args[1::2]):
        meta = json.load(open(os.path.join(src, "meta.json")))
        demo = str(meta.get("demo", ""))
        m = re.search(r"cp \S*demo_test\.rs (\S+)", demo)
        c = re.search(r"cargo test (-p \S+(?: --features \S+)?(?: --offline)?(?: --features \S+)? --test \S+)", demo)
        if not m or not c:
            print(sid, "CANNOT-PARSE-DEMO", demo[:200]); continue
        dest, testargs = m.group(1), c.group(1).replace(" --offline", "")
        democmd = f"cargo test {testargs} --offline 2>&1"
        sh("git checkout -q -- . && git clean -fdq")
        r = sh(f"git apply {src}/patch.diff")
        if r.returncode != 0:
            print(sid, "PATCH-DOES-NOT-APPLY", r.stdout[-300:]); continue
        rc, passed, failed, tail = suite()
        suite_ok = rc == 0 and failed == 0 and passed >= 47
        os.makedirs(os.path.dirname(os.path.join(WT, dest)), exist_ok=True)
        shutil.copyfile(os.path.join(src, "demo_test.rs"), os.path.join(WT, dest))
        r1 = sh(democmd)
        fails_with = r1.returncode != 0 and ("test result: FAILED" in r1.stdout or "panicked" in r1.stdout)
        sh(f"git apply -R {src}/patch.diff")
        r2 = sh(democmd)
        passes_without = r2.returncode == 0
        sh("git checkout -q -- . && git clean -fdq")
        ok = suite_ok and fails_with and passes_without
        out = os.path.join("/verif/seeded", sid)
        os.makedirs(out, exist_ok=True)
        shutil.copyfile(os.path.join(src, "patch.diff"), os.path.join(out, "patch.diff"))
        shutil.copyfile(os.path.join(src, "demo_test.rs"), os.path.join(out, "demo_test.rs"))
        rec = {
            "id": sid, "property": meta.get("property"), "summary": meta.get("summary"), "needs": meta.get("needs"), "files": meta.get("files"),
            "demo": {"place_at": dest, "command": democmd.replace(" 2>&1", "")},
            "origin": "written by an independent sub-agent that saw only the property text and a scratch worktree of /repo",
            "confirmed": {
                "by": "lib/confirm_seeds.py in a scratch worktree of /repo HEAD",
                "suite_with_patch": {"command": "cargo test --workspace --no-fail-fast --offline", "passed": passed, "failed": failed, "ok": suite_ok},
                "demo_fails_with_patch": fails_with, "demo_passes_without_patch": passes_without, "all_confirmed": ok,
            },
        }
        json.dump(rec, open(os.path.join(out, "meta.json"), "w"), indent=1)
        print(sid, "CONFIRMED" if ok else "NOT-CONFIRMED", f"suite={passed}/{failed} fails_with={fails_with} passes_without={passes_without}", flush=True)
        if not ok:
            open(os.path.join(out, "confirm.log"), "w").write(tail + "\n-----\n" + r1.stdout[-1500:] + "\n-----\n" + r2.stdout[-1500:])


main()
