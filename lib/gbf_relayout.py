#!/usr/bin/env python3
"""Semantics-preserving basic-block relayout of a CBMC GOTO binary (format version 6).

Why: Kani lays out the blocks of `while let Some(x) = it.next()`-style loops so that the loop
*body* comes after the loop's *continuation* (header, exit .. rest of function, body, back edge).
CBMC's symbolic execution walks instructions in program order and merges forked states only at
forward join points, so with that layout everything after the loop is re-executed once per loop
iteration - sequential loops multiply (4 -> 20 -> 100 unwindings for three loops with unwind 5).
Laying every natural loop out contiguously (header, body, ..., then the exits) restores a single
pass: the same three loops unwind 4 + 4 + 4 times.

What is changed: only the ORDER of instruction chains inside each function. A chain is a maximal
run of instructions that ends with an unconditional GOTO or END_FUNCTION, so control never falls
out of a chain into its textual successor; permuting chains therefore cannot change any control
transfer. Targets are referenced by target number, which is kept. The first chain (function entry)
stays first and the chain holding END_FUNCTION stays last. Functions whose chain graph is
irreducible, and anything this tool does not understand, are written back unchanged.

usage: gbf_relayout.py IN OUT [--identity] [--stats]
"""
import sys

GOTO, END_FUNCTION = 1, 9


class Reader:
    def __init__(self, data):
        self.d = data
        self.p = 0
        self.strings = {}   # id -> bytes (raw, escaped form as in the file)
        self.ireps = {}     # id -> (id_string_id, (sub ids...), ((name string id, irep id)...))

    def word(self):
        d, p = self.d, self.p
        shift = 0
        v = 0
        while True:
            b = d[p]
            p += 1
            v |= (b & 0x7F) << shift
            if not (b & 0x80):
                break
            shift += 7
        self.p = p
        return v

    def raw_string(self):
        """raw (still escaped) bytes up to the terminating 0"""
        d, p = self.d, self.p
        start = p
        while True:
            b = d[p]
            if b == 0:
                break
            if b == 0x5C:  # backslash escapes the next byte
                p += 1
            p += 1
        self.p = p + 1
        return d[start:p]

    def string_ref(self):
        i = self.word()
        if i not in self.strings:
            self.strings[i] = self.raw_string()
        return i

    def irep_ref(self):
        """iterative version of reference_convert/read_irep"""
        top = self.word()
        if top in self.ireps:
            return top
        # stack of frames: [irep id, id string, subs list, named list, pending name]
        stack = [[top, self.string_ref(), [], [], None]]
        d = self.d
        while stack:
            fr = stack[-1]
            c = d[self.p]
            self.p += 1
            if c == 0:
                self.ireps[fr[0]] = (fr[1], tuple(fr[2]), tuple(fr[3]))
                stack.pop()
                continue
            if c == 0x53:      # 'S'
                name = None
            elif c in (0x4E, 0x43):  # 'N' (and legacy 'C')
                name = self.string_ref()
            else:
                raise ValueError("unexpected irep marker %r at %d" % (c, self.p - 1))
            i = self.word()
            (fr[2].append(i) if name is None else fr[3].append((name, i)))
            if i not in self.ireps:
                # placeholder so that a (theoretical) self reference terminates
                self.ireps[i] = None
                stack.append([i, self.string_ref(), [], [], None])
        return top


class Writer:
    def __init__(self, rd):
        self.out = bytearray()
        self.rd = rd
        self.s_done = set()
        self.i_done = set()

    def word(self, v):
        o = self.out
        while True:
            b = v & 0x7F
            v >>= 7
            if v:
                o.append(b | 0x80)
            else:
                o.append(b)
                break

    def raw_string(self, raw):
        self.out += raw
        self.out.append(0)

    def string_ref(self, i):
        self.word(i)
        if i not in self.s_done:
            self.s_done.add(i)
            self.raw_string(self.rd.strings[i])

    def irep_ref(self, top):
        self.word(top)
        if top in self.i_done:
            return
        self.i_done.add(top)
        ireps = self.rd.ireps
        # frames: [irep tuple, phase index]
        ids, subs, named = ireps[top]
        self.string_ref(ids)
        stack = [[subs, named, 0]]
        while stack:
            fr = stack[-1]
            subs, named, k = fr
            if k < len(subs):
                fr[2] = k + 1
                self.out.append(0x53)
                child = subs[k]
            elif k < len(subs) + len(named):
                fr[2] = k + 1
                nm, child = named[k - len(subs)]
                self.out.append(0x4E)
                self.string_ref(nm)
            else:
                self.out.append(0)
                stack.pop()
                continue
            self.word(child)
            if child not in self.i_done:
                self.i_done.add(child)
                cid, csubs, cnamed = ireps[child]
                self.string_ref(cid)
                stack.append([csubs, cnamed, 0])


def parse(data):
    rd = Reader(data)
    if data[:4] != b"\x7fGBF":
        raise ValueError("not a goto binary")
    rd.p = 4
    version = rd.word()
    if version != 6:
        raise ValueError("unsupported goto binary version %d" % version)
    nsym = rd.word()
    symbols = []
    for _ in range(nsym):
        t, v, l = rd.irep_ref(), rd.irep_ref(), rd.irep_ref()
        names = [rd.string_ref() for _ in range(5)]
        ordering = rd.word()
        flags = rd.word()
        symbols.append((t, v, l, names, ordering, flags))
    nfun = rd.word()
    functions = []
    for _ in range(nfun):
        name = rd.raw_string()
        n = rd.word()
        ins = []
        for _ in range(n):
            code = rd.irep_ref()
            loc = rd.irep_ref()
            typ = rd.word()
            guard = rd.irep_ref()
            tn = rd.word()
            targets = [rd.word() for _ in range(rd.word())]
            labels = [rd.string_ref() for _ in range(rd.word())]
            ins.append((code, loc, typ, guard, tn, targets, labels))
        functions.append((name, ins))
    if rd.p != len(data):
        raise ValueError("trailing data: parsed %d of %d bytes" % (rd.p, len(data)))
    return rd, version, symbols, functions


def emit(rd, version, symbols, functions):
    w = Writer(rd)
    w.out += b"\x7fGBF"
    w.word(version)
    w.word(len(symbols))
    for t, v, l, names, ordering, flags in symbols:
        w.irep_ref(t); w.irep_ref(v); w.irep_ref(l)
        for s in names:
            w.string_ref(s)
        w.word(ordering)
        w.word(flags)
    w.word(len(functions))
    for name, ins in functions:
        w.raw_string(name)
        w.word(len(ins))
        for code, loc, typ, guard, tn, targets, labels in ins:
            w.irep_ref(code); w.irep_ref(loc); w.word(typ); w.irep_ref(guard); w.word(tn)
            w.word(len(targets))
            for t in targets:
                w.word(t)
            w.word(len(labels))
            for s in labels:
                w.string_ref(s)
    return bytes(w.out)


def is_true(rd, guard):
    ids, subs, named = rd.ireps[guard]
    if rd.strings[ids] != b"constant":
        return False
    for nm, i in named:
        if rd.strings[nm] == b"value":
            return rd.strings[rd.ireps[i][0]] == b"true"
    return False


class Irreducible(Exception):
    pass


def layout(nunits, succ, entry, last):
    """Order of units: entry first, `last` last, every natural loop contiguous with its header
    first, every non-back edge forward. Raises Irreducible if that is impossible."""
    # 1. DFS from entry: reachable set, back edges
    color = [0] * nunits
    back = []      # (tail, header)
    order = []
    stack = [(entry, iter(succ[entry]))]
    color[entry] = 1
    while stack:
        u, it = stack[-1]
        adv = False
        for v in it:
            if color[v] == 0:
                color[v] = 1
                stack.append((v, iter(succ[v])))
                adv = True
                break
            elif color[v] == 1:
                back.append((u, v))
        if not adv:
            color[u] = 2
            order.append(u)
            stack.pop()
    reach = [u for u in range(nunits) if color[u] == 2]
    reach_set = set(reach)
    pred = {u: [] for u in reach}
    for u in reach:
        for v in succ[u]:
            pred[v].append(u)
    # 2. natural loops per header
    loops = {}
    for t, h in back:
        body = loops.setdefault(h, {h})
        work = [t]
        while work:
            x = work.pop()
            if x in body:
                continue
            body.add(x)
            work.extend(pred[x])
    # reducibility: every loop must be entered through its header only
    for h, body in loops.items():
        if entry in body and h != entry:
            raise Irreducible()
        for x in body:
            if x == h:
                continue
            for p in pred[x]:
                if p not in body:
                    raise Irreducible()
    # 3. nesting: smallest enclosing loop
    headers = sorted(loops, key=lambda h: len(loops[h]))
    for i, h in enumerate(headers):
        for g in headers[i + 1:]:
            inter = loops[h] & loops[g]
            if inter and not loops[h] <= loops[g]:
                raise Irreducible()

    def emit_region(nodes, header, out):
        """nodes: set of units of this region (a loop body incl. header, or everything); emits them."""
        # inner loops: maximal loops strictly inside this region (other than the region's own)
        inner = [h for h in headers if h in nodes and h != header and loops[h] <= nodes and (header is None or loops[h] != nodes)]
        # keep maximal ones only
        maximal = []
        for h in sorted(inner, key=lambda h: -len(loops[h])):
            if not any(h in loops[g] for g in maximal):
                maximal.append(h)
        rep = {}
        for h in maximal:
            for x in loops[h]:
                rep[x] = h
        for x in nodes:
            rep.setdefault(x, x)
        # condensed DAG (edges into the region header are this region's back edges: dropped)
        cs = {}
        indeg = {}
        for x in nodes:
            rx = rep[x]
            cs.setdefault(rx, set())
            indeg.setdefault(rx, 0)
        for x in nodes:
            rx = rep[x]
            for v in succ[x]:
                if v not in nodes or v == header:
                    continue
                rv = rep[v]
                if rv != rx and rv not in cs[rx]:
                    cs[rx].add(rv)
                    indeg[rv] += 1
        start = rep[header] if header is not None else rep[entry]
        # Kahn with a priority: original position (keeps the result close to the input), but the
        # region's start node first and `last` as late as possible
        import heapq
        ready = [(0 if n == start else 1, 1 if n == last else 0, n) for n in cs if indeg[n] == 0]  # n = original position
        heapq.heapify(ready)
        done = 0
        while ready:
            _, _, n = heapq.heappop(ready)
            done += 1
            if n in loops and n in maximal:
                emit_region(loops[n], n, out)
            else:
                out.append(n)
            for v in cs[n]:
                indeg[v] -= 1
                if indeg[v] == 0:
                    heapq.heappush(ready, (1, 1 if v == last else 0, v))
        if done != len(cs):
            raise Irreducible()

    # top level: treat the whole reachable graph as a region without header
    out = []
    emit_region(set(reach_set), None, out)
    if out[0] != entry:
        raise Irreducible()
    rest = [u for u in range(nunits) if u not in reach_set and u != last]
    if last in out:
        out.remove(last)
    return out + rest + [last]


def relayout_function(rd, ins, stats):
    n = len(ins)
    if n < 3:
        return ins
    # chains: split after every unconditional GOTO / END_FUNCTION
    units = []
    cur = []
    for x in ins:
        cur.append(x)
        typ = x[2]
        if typ == END_FUNCTION or (typ == GOTO and is_true(rd, x[3])):
            units.append(cur)
            cur = []
    if cur:
        # the function does not end with END_FUNCTION / a jump: leave it alone
        return ins
    if ins[-1][2] != END_FUNCTION or len(units) < 3:
        return ins
    unit_of_target = {}
    for ui, u in enumerate(units):
        for x in u:
            if x[4] != 0xFFFFFFFF:  # goto_programt::instructiont::nil_target
                unit_of_target.setdefault(x[4], ui)
    succ = []
    for ui, u in enumerate(units):
        s = []
        for x in u:
            if x[2] == GOTO:
                for t in x[5]:
                    if t not in unit_of_target:
                        return ins  # dangling target: do not touch
                    v = unit_of_target[t]
                    if v not in s:
                        s.append(v)
            elif x[5]:
                return ins  # targets on a non-goto (START_THREAD, CATCH ...): do not touch
        succ.append(s)
    # target numbers must be unique for the mapping above to be meaningful
    seen = set()
    for x in ins:
        tn = x[4]
        if tn in unit_of_target:
            if tn in seen:
                return ins
            seen.add(tn)
    last = len(units) - 1
    try:
        order = layout(len(units), succ, 0, last)
    except Irreducible:
        stats["irreducible"] += 1
        return ins
    if sorted(order) != list(range(len(units))) or order[0] != 0 or order[-1] != last:
        stats["rejected"] += 1
        return ins
    if order != list(range(len(units))):
        stats["changed"] += 1
    out = []
    for ui in order:
        out.extend(units[ui])
    return out


def main():
    args = [a for a in sys.argv[1:] if not a.startswith("--")]
    flags = [a for a in sys.argv[1:] if a.startswith("--")]
    src, dst = args
    data = open(src, "rb").read()
    rd, version, symbols, functions = parse(data)
    stats = {"functions": len(functions), "changed": 0, "irreducible": 0, "rejected": 0}
    if "--identity" in flags:
        out = emit(rd, version, symbols, functions)
        if out != data:
            sys.stderr.write("identity round trip differs\n")
            sys.exit(3)
    else:
        functions = [(name, relayout_function(rd, ins, stats)) for name, ins in functions]
        out = emit(rd, version, symbols, functions)
    with open(dst, "wb") as f:
        f.write(out)
    if "--stats" in flags:
        sys.stderr.write("gbf_relayout: %r\n" % stats)


if __name__ == "__main__":
    main()
