#!/bin/sh
# Offline set-up after a fresh restore: builds the shadow Kani bundle (lib/kani_home.sh) and warms
# the two harness crates' target dirs (Kani GOTO codegen of /repo + harnesses; native replay
# binary in dev and release).
set -e
cd "$(dirname "$0")"
export CARGO_NET_OFFLINE=true
mkdir -p .target evidence
lib/kani_home.sh "$(pwd)"
export KANI_HOME="$(pwd)/.target/kani-home"
cp /repo/Cargo.lock kani/Cargo.lock
cp /repo/Cargo.lock replay/Cargo.lock
(cd kani && cargo kani --only-codegen --target-dir ../.target/kani-base --harness c04_action::c04_action_tuple --exact -Z stubbing >/dev/null 2>../.target/setup-kani.log) || { tail -30 .target/setup-kani.log; exit 1; }
(cd replay && cargo build --offline --target-dir ../.target/replay --bin replay >/dev/null 2>../.target/setup-replay.log && cargo build --offline --release --target-dir ../.target/replay --bin replay >/dev/null 2>>../.target/setup-replay.log) || { tail -30 .target/setup-replay.log; exit 1; }
echo "setup ok"
