use std::ops::{Bound, Range, RangeBounds, RangeTo};

use crate::{JavaStr, Utf8Error};

pub(crate) const TAG_CONT: u8 = 0b1000_0000;
pub(crate) const TAG_TWO_B: u8 = 0b1100_0000;
pub(crate) const TAG_THREE_B: u8 = 0b1110_0000;
pub(crate) const TAG_FOUR_B: u8 = 0b1111_0000;
pub(crate) const CONT_MASK: u8 = 0b0011_1111;

#[inline]
const fn utf8_first_byte(byte: u8, width: u32) -> u32 {
    (byte & (0x7f >> width)) as u32
}

#[inline]
const fn utf8_acc_cont_byte(ch: u32, byte: u8) -> u32 {
    (ch << 6) | (byte & CONT_MASK) as u32
}

#[inline]
const fn utf8_is_cont_byte(byte: u8) -> bool {
    (byte as i8) < -64
}

/// # Safety
///
/// `bytes` must produce a semi-valid UTF-8 string
#[inline]
pub(crate) unsafe fn next_code_point<'a, I: Iterator<Item = &'a u8>>(bytes: &mut I) -> Option<u32> {
    // Decode UTF-8
    let x = *bytes.next()?;
    if x < 128 {
        return Some(x as u32);
    }
    // VERIF MODEL (cfg(kani) only): strings are ASCII. A non-ASCII byte is a verification
    // failure, never a silently skipped path; this keeps every char position concrete.
    #[cfg(kani)]
    {
        panic!("VERIF-MODEL: non-ASCII byte reached java_string::Chars::next");
    }

    // Multibyte case follows
    // Decode from a byte combination out of: [[[x y] z] w]
    // NOTE: Performance is sensitive to the exact formulation here
    let init = utf8_first_byte(x, 2);
    // SAFETY: `bytes` produces an UTF-8-like string,
    // so the iterator must produce a value here.
    let y = unsafe { *bytes.next().unwrap_unchecked() };
    let mut ch = utf8_acc_cont_byte(init, y);
    if x >= 0xe0 {
        // [[x y z] w] case
        // 5th bit in 0xE0 .. 0xEF is always clear, so `init` is still valid
        // SAFETY: `bytes` produces an UTF-8-like string,
        // so the iterator must produce a value here.
        let z = unsafe { *bytes.next().unwrap_unchecked() };
        let y_z = utf8_acc_cont_byte((y & CONT_MASK) as u32, z);
        ch = init << 12 | y_z;
        if x >= 0xf0 {
            // [x y z w] case
            // use only the lower 3 bits of `init`
            // SAFETY: `bytes` produces an UTF-8-like string,
            // so the iterator must produce a value here.
            let w = unsafe { *bytes.next().unwrap_unchecked() };
            ch = (init & 7) << 18 | utf8_acc_cont_byte(y_z, w);
        }
    }

    Some(ch)
}

/// # Safety
///
/// `bytes` must produce a semi-valid UTF-8 string
#[inline]
pub(crate) unsafe fn next_code_point_reverse<'a, I: DoubleEndedIterator<Item = &'a u8>>(
    bytes: &mut I,
) -> Option<u32> {
    // Decode UTF-8
    let w = match *bytes.next_back()? {
        next_byte if next_byte < 128 => return Some(next_byte as u32),
        back_byte => back_byte,
    };
    #[cfg(kani)]
    {
        panic!("VERIF-MODEL: non-ASCII byte reached java_string::Chars::next_back");
    }

    // Multibyte case follows
    // Decode from a byte combination out of: [x [y [z w]]]
    let mut ch;
    // SAFETY: `bytes` produces an UTF-8-like string,
    // so the iterator must produce a value here.
    let z = unsafe { *bytes.next_back().unwrap_unchecked() };
    ch = utf8_first_byte(z, 2);
    if utf8_is_cont_byte(z) {
        // SAFETY: `bytes` produces an UTF-8-like string,
        // so the iterator must produce a value here.
        let y = unsafe { *bytes.next_back().unwrap_unchecked() };
        ch = utf8_first_byte(y, 3);
        if utf8_is_cont_byte(y) {
            // SAFETY: `bytes` produces an UTF-8-like string,
            // so the iterator must produce a value here.
            let x = unsafe { *bytes.next_back().unwrap_unchecked() };
            ch = utf8_first_byte(x, 4);
            ch = utf8_acc_cont_byte(ch, y);
        }
        ch = utf8_acc_cont_byte(ch, z);
    }
    ch = utf8_acc_cont_byte(ch, w);

    Some(ch)
}

#[inline(always)]
pub(crate) fn run_utf8_semi_validation(v: &[u8]) -> Result<(), Utf8Error> {
    let mut index = 0;
    let len = v.len();

    let usize_bytes = std::mem::size_of::<usize>();
    let ascii_block_size = 2 * usize_bytes;
    let blocks_end = if len >= ascii_block_size {
        len - ascii_block_size + 1
    } else {
        0
    };
    let align = v.as_ptr().align_offset(usize_bytes);

    while index < len {
        let old_offset = index;
        macro_rules! err {
            ($error_len:expr) => {
                return Err(Utf8Error {
                    valid_up_to: old_offset,
                    error_len: $error_len,
                })
            };
        }

        macro_rules! next {
            () => {{
                index += 1;
                // we needed data, but there was none: error!
                if index >= len {
                    err!(None)
                }
                v[index]
            }};
        }

        let first = v[index];
        if first >= 128 {
            let w = utf8_char_width(first);
            // 2-byte encoding is for codepoints  \u{0080} to  \u{07ff}
            //        first  C2 80        last DF BF
            // 3-byte encoding is for codepoints  \u{0800} to  \u{ffff}
            //        first  E0 A0 80     last EF BF BF
            //   INCLUDING surrogates codepoints  \u{d800} to  \u{dfff}
            //               ED A0 80 to       ED BF BF
            // 4-byte encoding is for codepoints \u{1000}0 to \u{10ff}ff
            //        first  F0 90 80 80  last F4 8F BF BF
            //
            // Use the UTF-8 syntax from the RFC
            //
            // https://tools.ietf.org/html/rfc3629
            // UTF8-1      = %x00-7F
            // UTF8-2      = %xC2-DF UTF8-tail
            // UTF8-3      = %xE0 %xA0-BF UTF8-tail / %xE1-EC 2( UTF8-tail ) /
            //               %xED %x80-9F UTF8-tail / %xEE-EF 2( UTF8-tail )
            // UTF8-4      = %xF0 %x90-BF 2( UTF8-tail ) / %xF1-F3 3( UTF8-tail ) /
            //               %xF4 %x80-8F 2( UTF8-tail )
            match w {
                2 => {
                    if next!() as i8 >= -64 {
                        err!(Some(1))
                    }
                }
                3 => {
                    match (first, next!()) {
                        (0xe0, 0xa0..=0xbf) | (0xe1..=0xef, 0x80..=0xbf) => {} /* INCLUDING surrogate codepoints here */
                        _ => err!(Some(1)),
                    }
                    if next!() as i8 >= -64 {
                        err!(Some(2))
                    }
                }
                4 => {
                    match (first, next!()) {
                        (0xf0, 0x90..=0xbf) | (0xf1..=0xf3, 0x80..=0xbf) | (0xf4, 0x80..=0x8f) => {}
                        _ => err!(Some(1)),
                    }
                    if next!() as i8 >= -64 {
                        err!(Some(2))
                    }
                    if next!() as i8 >= -64 {
                        err!(Some(3))
                    }
                }
                _ => err!(Some(1)),
            }
            index += 1;
        } else {
            // Ascii case, try to skip forward quickly.
            // When the pointer is aligned, read 2 words of data per iteration
            // until we find a word containing a non-ascii byte.
            if align != usize::MAX && align.wrapping_sub(index) % usize_bytes == 0 {
                let ptr = v.as_ptr();
                while index < blocks_end {
                    // SAFETY: since `align - index` and `ascii_block_size` are
                    // multiples of `usize_bytes`, `block = ptr.add(index)` is
                    // always aligned with a `usize` so it's safe to dereference
                    // both `block` and `block.add(1)`.
                    unsafe {
                        let block = ptr.add(index) as *const usize;
                        // break if there is a nonascii byte
                        let zu = contains_nonascii(*block);
                        let zv = contains_nonascii(*block.add(1));
                        if zu || zv {
                            break;
                        }
                    }
                    index += ascii_block_size;
                }
                // step from the point where the wordwise loop stopped
                while index < len && v[index] < 128 {
                    index += 1;
                }
            } else {
                index += 1;
            }
        }
    }

    Ok(())
}

#[inline(always)]
pub(crate) const fn run_utf8_full_validation_from_semi(v: &[u8]) -> Result<(), Utf8Error> {
    // this function checks for surrogate codepoints, between \u{d800} to \u{dfff},
    // or ED A0 80 to ED BF BF of width 3 unicode chars. The valid range of width 3
    // characters is ED 80 80 to ED BF BF, so we need to check for an ED byte
    // followed by a >=A0 byte.
    let mut index = 0;
    while index + 3 <= v.len() {
        if v[index] == 0xed && v[index + 1] >= 0xa0 {
            return Err(Utf8Error {
                valid_up_to: index,
                error_len: Some(1),
            });
        }
        index += 1;
    }

    Ok(())
}

#[inline]
pub(crate) const fn utf8_char_width(first_byte: u8) -> usize {
    const UTF8_CHAR_WIDTH: [u8; 256] = [
        1, 1, 1, 1, 1, 1, 1, 1, 1, 1, 1, 1, 1, 1, 1, 1, 1, 1, 1, 1, 1, 1, 1, 1, 1, 1, 1, 1, 1, 1,
        1, 1, 1, 1, 1, 1, 1, 1, 1, 1, 1, 1, 1, 1, 1, 1, 1, 1, 1, 1, 1, 1, 1, 1, 1, 1, 1, 1, 1, 1,
        1, 1, 1, 1, 1, 1, 1, 1, 1, 1, 1, 1, 1, 1, 1, 1, 1, 1, 1, 1, 1, 1, 1, 1, 1, 1, 1, 1, 1, 1,
        1, 1, 1, 1, 1, 1, 1, 1, 1, 1, 1, 1, 1, 1, 1, 1, 1, 1, 1, 1, 1, 1, 1, 1, 1, 1, 1, 1, 1, 1,
        1, 1, 1, 1, 1, 1, 1, 1, 0, 0, 0, 0, 0, 0, 0, 0, 0, 0, 0, 0, 0, 0, 0, 0, 0, 0, 0, 0, 0, 0,
        0, 0, 0, 0, 0, 0, 0, 0, 0, 0, 0, 0, 0, 0, 0, 0, 0, 0, 0, 0, 0, 0, 0, 0, 0, 0, 0, 0, 0, 0,
        0, 0, 0, 0, 0, 0, 0, 0, 0, 0, 0, 0, 0, 0, 2, 2, 2, 2, 2, 2, 2, 2, 2, 2, 2, 2, 2, 2, 2, 2,
        2, 2, 2, 2, 2, 2, 2, 2, 2, 2, 2, 2, 2, 2, 3, 3, 3, 3, 3, 3, 3, 3, 3, 3, 3, 3, 3, 3, 3, 3,
        4, 4, 4, 4, 4, 0, 0, 0, 0, 0, 0, 0, 0, 0, 0, 0,
    ];

    UTF8_CHAR_WIDTH[first_byte as usize] as _
}

#[inline]
const fn contains_nonascii(x: usize) -> bool {
    const NONASCII_MASK: usize = usize::from_ne_bytes([0x80; std::mem::size_of::<usize>()]);
    (x & NONASCII_MASK) != 0
}

#[cold]
#[track_caller]
pub(crate) fn slice_error_fail(s: &JavaStr, begin: usize, end: usize) -> ! {
    // VERIF MODEL (cfg(kani) only): the slicing failure still panics (and is therefore still
    // reported by the model checker); only the construction of the panic *message* – which
    // itself slices, searches char boundaries and formats – is cut.
    #[cfg(kani)]
    {
        panic!("VERIF-MODEL: JavaStr slice index out of bounds or not on a char boundary");
    }
    const MAX_DISPLAY_LENGTH: usize = 256;
    let trunc_len = s.floor_char_boundary(MAX_DISPLAY_LENGTH);
    let s_trunc = &s[..trunc_len];
    let ellipsis = if trunc_len < s.len() { "[...]" } else { "" };

    // 1. out of bounds
    if begin > s.len() || end > s.len() {
        let oob_index = if begin > s.len() { begin } else { end };
        panic!("byte index {oob_index} is out of bounds of `{s_trunc}`{ellipsis}");
    }

    // 2. begin <= end
    assert!(
        begin <= end,
        "begin <= end ({} <= {}) when slicing `{}`{}",
        begin,
        end,
        s_trunc,
        ellipsis
    );

    // 3. character boundary
    let index = if !s.is_char_boundary(begin) {
        begin
    } else {
        end
    };
    // find the character
    let char_start = s.floor_char_boundary(index);
    // `char_start` must be less than len and a char boundary
    let ch = s[char_start..].chars().next().unwrap();
    let char_range = char_start..char_start + ch.len_utf8();
    panic!(
        "byte index {} is not a char boundary; it is inside {:?} (bytes {:?}) of `{}`{}",
        index, ch, char_range, s_trunc, ellipsis
    );
}

#[cold]
#[track_caller]
pub(crate) fn str_end_index_len_fail(index: usize, len: usize) -> ! {
    panic!("range end index {index} out of range for JavaStr of length {len}");
}

#[cold]
#[track_caller]
pub(crate) fn str_index_order_fail(index: usize, end: usize) -> ! {
    panic!("JavaStr index starts at {index} but ends at {end}");
}

#[cold]
#[track_caller]
pub(crate) fn str_start_index_overflow_fail() -> ! {
    panic!("attempted to index JavaStr from after maximum usize");
}

#[cold]
#[track_caller]
pub(crate) fn str_end_index_overflow_fail() -> ! {
    panic!("attempted to index JavaStr up to maximum usize")
}

#[inline]
#[track_caller]
pub(crate) fn to_range_checked<R>(range: R, bounds: RangeTo<usize>) -> Range<usize>
where
    R: RangeBounds<usize>,
{
    let len = bounds.end;

    let start = range.start_bound();
    let start = match start {
        Bound::Included(&start) => start,
        Bound::Excluded(start) => start
            .checked_add(1)
            .unwrap_or_else(|| str_start_index_overflow_fail()),
        Bound::Unbounded => 0,
    };

    let end: Bound<&usize> = range.end_bound();
    let end = match end {
        Bound::Included(end) => end
            .checked_add(1)
            .unwrap_or_else(|| str_end_index_overflow_fail()),
        Bound::Excluded(&end) => end,
        Bound::Unbounded => len,
    };

    if start > end {
        str_index_order_fail(start, end);
    }
    if end > len {
        str_end_index_len_fail(end, len);
    }

    Range { start, end }
}
