use std::error::Error;
use std::fmt;
use std::fmt::{Display, Formatter};

#[derive(Copy, Eq, PartialEq, Clone, Debug)]
pub struct Utf8Error {
    pub(crate) valid_up_to: usize,
    pub(crate) error_len: Option<u8>,
}

impl Utf8Error {
    #[must_use]
    #[inline]
    pub const fn valid_up_to(&self) -> usize {
        self.valid_up_to
    }

    #[must_use]
    #[inline]
    pub const fn error_len(&self) -> Option<usize> {
        // Manual implementation of Option::map since it's not const
        match self.error_len {
            Some(len) => Some(len as usize),
            None => None,
        }
    }

    #[must_use]
    #[inline]
    pub(crate) const fn from_std(value: std::str::Utf8Error) -> Self {
        Self {
            valid_up_to: value.valid_up_to(),
            // Manual implementation of Option::map since it's not const
            error_len: match value.error_len() {
                Some(error_len) => Some(error_len as u8),
                None => None,
            },
        }
    }
}

impl Display for Utf8Error {
    fn fmt(&self, f: &mut Formatter<'_>) -> fmt::Result {
        if let Some(error_len) = self.error_len {
            write!(
                f,
                "invalid utf-8 sequence of {} bytes from index {}",
                error_len, self.valid_up_to
            )
        } else {
            write!(
                f,
                "incomplete utf-8 byte sequence from index {}",
                self.valid_up_to
            )
        }
    }
}

impl From<std::str::Utf8Error> for Utf8Error {
    #[inline]
    fn from(value: std::str::Utf8Error) -> Self {
        Self::from_std(value)
    }
}

impl Error for Utf8Error {}

#[derive(Clone, Debug, PartialEq, Eq)]
pub struct FromUtf8Error {
    pub(crate) bytes: Vec<u8>,
    pub(crate) error: Utf8Error,
}

impl FromUtf8Error {
    pub fn as_bytes(&self) -> &[u8] {
        &self.bytes[..]
    }

    #[must_use]
    pub fn into_bytes(self) -> Vec<u8> {
        self.bytes
    }

    pub fn utf8_error(&self) -> Utf8Error {
        self.error
    }
}

impl Display for FromUtf8Error {
    fn fmt(&self, f: &mut Formatter<'_>) -> fmt::Result {
        Display::fmt(&self.error, f)
    }
}

impl Error for FromUtf8Error {}

#[derive(Copy, Eq, PartialEq, Clone, Debug)]
pub enum ParseError<E> {
    InvalidUtf8(Utf8Error),
    Err(E),
}

impl<E> Display for ParseError<E>
where
    E: Display,
{
    fn fmt(&self, f: &mut Formatter<'_>) -> fmt::Result {
        match self {
            ParseError::InvalidUtf8(err) => Display::fmt(err, f),
            ParseError::Err(err) => Display::fmt(err, f),
        }
    }
}

impl<E> Error for ParseError<E>
where
    E: Error + 'static,
{
    fn source(&self) -> Option<&(dyn Error + 'static)> {
        match self {
            ParseError::InvalidUtf8(err) => Some(err),
            ParseError::Err(err) => Some(err),
        }
    }
}
