// FORK of java_string 0.1.2 (MIT) for symbolic execution; see /verif/DESIGN.md §4 for the list of rewritten internals.
#![allow(warnings, dangerous_implicit_autorefs)]
#![doc = include_str!("../README.md")]

mod cesu8;
mod char;
mod error;
mod iter;
mod owned;
mod pattern;
#[cfg(feature = "serde")]
mod serde;
mod slice;
pub(crate) mod validations;

pub use char::*;
pub use error::*;
pub use iter::*;
pub use owned::*;
pub use pattern::*;
pub use slice::*;

#[macro_export]
macro_rules! format_java {
    ($($arg:tt)*) => {
        $crate::JavaString::from(::std::format!($($arg)*))
    }
}
