use std::fmt::{Debug, Display, Formatter, Write};
use std::iter::{Chain, Copied, Filter, FlatMap, Flatten, FusedIterator, Map};
use std::{option, slice};

use crate::validations::{next_code_point, next_code_point_reverse};
use crate::{CharEscapeIter, JavaCodePoint, JavaStr, JavaStrPattern};
macro_rules! delegate {
    (Iterator for $ty:ident $(<$($lt:lifetime),+>)? => $item:ty $(, DoubleEnded = $double_ended:ty)?) => {
        impl$(<$($lt),+>)? Iterator for $ty$(<$($lt),+>)? {
            type Item = $item;

            #[inline]
            fn next(&mut self) -> Option<Self::Item> {
                self.inner.next()
            }

            #[inline]
            fn size_hint(&self) -> (usize, Option<usize>) {
                self.inner.size_hint()
            }

            #[inline]
            fn count(self) -> usize {
                self.inner.count()
            }

            #[inline]
            fn last(self) -> Option<Self::Item> {
                self.inner.last()
            }

            #[inline]
            fn nth(&mut self, n: usize) -> Option<Self::Item> {
                self.inner.nth(n)
            }

            #[inline]
            fn all<F>(&mut self, f: F) -> bool
            where
                F: FnMut(Self::Item) -> bool,
            {
                self.inner.all(f)
            }

            #[inline]
            fn any<F>(&mut self, f: F) -> bool
            where
                F: FnMut(Self::Item) -> bool,
            {
                self.inner.any(f)
            }

            #[inline]
            fn find<P>(&mut self, predicate: P) -> Option<Self::Item>
            where
                P: FnMut(&Self::Item) -> bool,
            {
                self.inner.find(predicate)
            }

            #[inline]
            fn position<P>(&mut self, predicate: P) -> Option<usize>
            where
                P: FnMut(Self::Item) -> bool,
            {
                self.inner.position(predicate)
            }

            $(
            #[inline]
            fn rposition<P>(&mut self, predicate: P) -> Option<usize>
            where
                P: FnMut(Self::Item) -> bool,
            {
                let _test: $double_ended = ();
                self.inner.rposition(predicate)
            }
            )?
        }
    };

    (DoubleEndedIterator for $ty:ident $(<$($lt:lifetime),+>)?) => {
        impl$(<$($lt),+>)? DoubleEndedIterator for $ty$(<$($lt),+>)? {
            #[inline]
            fn next_back(&mut self) -> Option<Self::Item> {
                self.inner.next_back()
            }

            #[inline]
            fn nth_back(&mut self, n: usize) -> Option<Self::Item> {
                self.inner.nth_back(n)
            }

            #[inline]
            fn rfind<P>(&mut self, predicate: P) -> Option<Self::Item>
            where
                P: FnMut(&Self::Item) -> bool,
            {
                self.inner.rfind(predicate)
            }
        }
    };

    (ExactSizeIterator for $ty:ident $(<$($lt:lifetime),+>)?) => {
        impl$(<$($lt),+>)? ExactSizeIterator for $ty$(<$($lt),+>)? {
            #[inline]
            fn len(&self) -> usize {
                self.inner.len()
            }
        }
    };

    (FusedIterator for $ty:ident $(<$($lt:lifetime),+>)?) => {
        impl$(<$($lt),+>)? FusedIterator for $ty$(<$($lt),+>)? {}
    };

    (Iterator, DoubleEndedIterator, ExactSizeIterator, FusedIterator for $ty:ident $(<$($lt:lifetime),+>)? => $item:ty) => {
        delegate!(Iterator for $ty$(<$($lt),+>)? => $item, DoubleEnded = ());
        delegate!(DoubleEndedIterator for $ty$(<$($lt),+>)?);
        delegate!(ExactSizeIterator for $ty$(<$($lt),+>)?);
        delegate!(FusedIterator for $ty$(<$($lt),+>)?);
    };
}

#[must_use]
#[derive(Clone, Debug)]
pub struct Bytes<'a> {
    pub(crate) inner: Copied<slice::Iter<'a, u8>>,
}
delegate!(Iterator, DoubleEndedIterator, ExactSizeIterator, FusedIterator for Bytes<'a> => u8);

#[derive(Clone, Debug)]
#[must_use]
pub struct EscapeDebug<'a> {
    #[allow(clippy::type_complexity)]
    pub(crate) inner: Chain<
        Flatten<option::IntoIter<CharEscapeIter>>,
        FlatMap<Chars<'a>, CharEscapeIter, fn(JavaCodePoint) -> CharEscapeIter>,
    >,
}
delegate!(Iterator for EscapeDebug<'a> => char);
delegate!(FusedIterator for EscapeDebug<'a>);
impl<'a> Display for EscapeDebug<'a> {
    fn fmt(&self, f: &mut Formatter<'_>) -> std::fmt::Result {
        self.clone().try_for_each(|c| f.write_char(c))
    }
}

#[derive(Clone, Debug)]
#[must_use]
pub struct EscapeDefault<'a> {
    pub(crate) inner: FlatMap<Chars<'a>, CharEscapeIter, fn(JavaCodePoint) -> CharEscapeIter>,
}
delegate!(Iterator for EscapeDefault<'a> => char);
delegate!(FusedIterator for EscapeDefault<'a>);
impl<'a> Display for EscapeDefault<'a> {
    fn fmt(&self, f: &mut Formatter<'_>) -> std::fmt::Result {
        self.clone().try_for_each(|c| f.write_char(c))
    }
}

#[derive(Clone, Debug)]
#[must_use]
pub struct EscapeUnicode<'a> {
    pub(crate) inner: FlatMap<Chars<'a>, CharEscapeIter, fn(JavaCodePoint) -> CharEscapeIter>,
}
delegate!(Iterator for EscapeUnicode<'a> => char);
delegate!(FusedIterator for EscapeUnicode<'a>);
impl<'a> Display for EscapeUnicode<'a> {
    fn fmt(&self, f: &mut Formatter<'_>) -> std::fmt::Result {
        self.clone().try_for_each(|c| f.write_char(c))
    }
}

#[derive(Clone, Debug)]
#[must_use]
pub struct Lines<'a> {
    pub(crate) inner: Map<SplitInclusive<'a, char>, fn(&JavaStr) -> &JavaStr>,
}
delegate!(Iterator for Lines<'a> => &'a JavaStr);
delegate!(DoubleEndedIterator for Lines<'a>);
delegate!(FusedIterator for Lines<'a>);

#[derive(Clone)]
#[must_use]
pub struct Chars<'a> {
    pub(crate) inner: slice::Iter<'a, u8>,
}

impl<'a> Iterator for Chars<'a> {
    type Item = JavaCodePoint;

    #[inline]
    fn next(&mut self) -> Option<Self::Item> {
        // SAFETY: `JavaStr` invariant says `self.inner` is a semi-valid UTF-8 string
        // and the resulting `ch` is a valid Unicode Scalar Value or surrogate
        // code point.
        unsafe { next_code_point(&mut self.inner).map(|ch| JavaCodePoint::from_u32_unchecked(ch)) }
    }

    // TODO: std has an optimized count impl

    #[inline]
    fn size_hint(&self) -> (usize, Option<usize>) {
        let len = self.inner.len();
        // `(len + 3)` can't overflow, because we know that the `slice::Iter`
        // belongs to a slice in memory which has a maximum length of
        // `isize::MAX` (that's well below `usize::MAX`).
        ((len + 3) / 4, Some(len))
    }

    #[inline]
    fn last(mut self) -> Option<JavaCodePoint> {
        // No need to go through the entire string.
        self.next_back()
    }
}

impl Debug for Chars<'_> {
    fn fmt(&self, f: &mut Formatter<'_>) -> std::fmt::Result {
        write!(f, "Chars(")?;
        f.debug_list().entries(self.clone()).finish()?;
        write!(f, ")")?;
        Ok(())
    }
}

impl<'a> DoubleEndedIterator for Chars<'a> {
    #[inline]
    fn next_back(&mut self) -> Option<Self::Item> {
        // SAFETY: `JavaStr` invariant says `self.inner` is a semi-valid UTF-8 string
        // and the resulting `ch` is a valid Unicode Scalar Value or surrogate
        // code point.
        unsafe {
            next_code_point_reverse(&mut self.inner).map(|ch| JavaCodePoint::from_u32_unchecked(ch))
        }
    }
}

impl FusedIterator for Chars<'_> {}

impl<'a> Chars<'a> {
    #[inline]
    #[must_use]
    pub fn as_str(&self) -> &'a JavaStr {
        // SAFETY: `Chars` is only made from a JavaStr, which guarantees the iter is
        // semi-valid UTF-8.
        unsafe { JavaStr::from_semi_utf8_unchecked(self.inner.as_slice()) }
    }
}

#[derive(Clone, Debug)]
#[must_use]
pub struct CharIndices<'a> {
    pub(crate) front_offset: usize,
    pub(crate) inner: Chars<'a>,
}

impl<'a> Iterator for CharIndices<'a> {
    type Item = (usize, JavaCodePoint);

    #[inline]
    fn next(&mut self) -> Option<(usize, JavaCodePoint)> {
        let pre_len = self.inner.inner.len();
        match self.inner.next() {
            None => None,
            Some(ch) => {
                let index = self.front_offset;
                let len = self.inner.inner.len();
                self.front_offset += pre_len - len;
                Some((index, ch))
            }
        }
    }

    #[inline]
    fn count(self) -> usize {
        self.inner.count()
    }

    #[inline]
    fn size_hint(&self) -> (usize, Option<usize>) {
        self.inner.size_hint()
    }

    #[inline]
    fn last(mut self) -> Option<(usize, JavaCodePoint)> {
        // No need to go through the entire string.
        self.next_back()
    }
}

impl<'a> DoubleEndedIterator for CharIndices<'a> {
    #[inline]
    fn next_back(&mut self) -> Option<(usize, JavaCodePoint)> {
        self.inner.next_back().map(|ch| {
            let index = self.front_offset + self.inner.inner.len();
            (index, ch)
        })
    }
}

impl FusedIterator for CharIndices<'_> {}

impl<'a> CharIndices<'a> {
    #[inline]
    #[must_use]
    pub fn as_str(&self) -> &'a JavaStr {
        self.inner.as_str()
    }
}

#[must_use]
#[derive(Debug, Clone)]
pub struct Matches<'a, P> {
    pub(crate) str: &'a JavaStr,
    pub(crate) pat: P,
}

impl<'a, P> Iterator for Matches<'a, P>
where
    P: JavaStrPattern,
{
    type Item = &'a JavaStr;

    #[inline]
    fn next(&mut self) -> Option<Self::Item> {
        if let Some((index, len)) = self.pat.find_in(self.str) {
            // SAFETY: pattern returns valid indices
            let ret = unsafe { self.str.get_unchecked(index..index + len) };
            self.str = unsafe { self.str.get_unchecked(index + len..) };
            Some(ret)
        } else {
            self.str = Default::default();
            None
        }
    }
}

impl<'a, P> DoubleEndedIterator for Matches<'a, P>
where
    P: JavaStrPattern,
{
    #[inline]
    fn next_back(&mut self) -> Option<Self::Item> {
        if let Some((index, len)) = self.pat.rfind_in(self.str) {
            // SAFETY: pattern returns valid indices
            let ret = unsafe { self.str.get_unchecked(index..index + len) };
            self.str = unsafe { self.str.get_unchecked(..index) };
            Some(ret)
        } else {
            self.str = Default::default();
            None
        }
    }
}

#[must_use]
#[derive(Clone, Debug)]
pub struct RMatches<'a, P> {
    pub(crate) inner: Matches<'a, P>,
}

impl<'a, P> Iterator for RMatches<'a, P>
where
    P: JavaStrPattern,
{
    type Item = &'a JavaStr;

    #[inline]
    fn next(&mut self) -> Option<Self::Item> {
        self.inner.next_back()
    }
}

impl<'a, P> DoubleEndedIterator for RMatches<'a, P>
where
    P: JavaStrPattern,
{
    #[inline]
    fn next_back(&mut self) -> Option<Self::Item> {
        self.inner.next()
    }
}

#[must_use]
#[derive(Clone, Debug)]
pub struct MatchIndices<'a, P> {
    pub(crate) str: &'a JavaStr,
    pub(crate) start: usize,
    pub(crate) pat: P,
}

impl<'a, P> Iterator for MatchIndices<'a, P>
where
    P: JavaStrPattern,
{
    type Item = (usize, &'a JavaStr);

    #[inline]
    fn next(&mut self) -> Option<Self::Item> {
        if let Some((index, len)) = self.pat.find_in(self.str) {
            let full_index = self.start + index;
            self.start = full_index + len;
            // SAFETY: pattern returns valid indices
            let ret = unsafe { self.str.get_unchecked(index..index + len) };
            self.str = unsafe { self.str.get_unchecked(index + len..) };
            Some((full_index, ret))
        } else {
            self.start += self.str.len();
            self.str = Default::default();
            None
        }
    }
}

impl<'a, P> DoubleEndedIterator for MatchIndices<'a, P>
where
    P: JavaStrPattern,
{
    #[inline]
    fn next_back(&mut self) -> Option<Self::Item> {
        if let Some((index, len)) = self.pat.rfind_in(self.str) {
            // SAFETY: pattern returns valid indices
            let ret = unsafe { self.str.get_unchecked(index..index + len) };
            self.str = unsafe { self.str.get_unchecked(..index) };
            Some((self.start + index, ret))
        } else {
            self.str = Default::default();
            None
        }
    }
}

#[derive(Clone, Debug)]
pub struct RMatchIndices<'a, P> {
    pub(crate) inner: MatchIndices<'a, P>,
}

impl<'a, P> Iterator for RMatchIndices<'a, P>
where
    P: JavaStrPattern,
{
    type Item = (usize, &'a JavaStr);

    #[inline]
    fn next(&mut self) -> Option<Self::Item> {
        self.inner.next_back()
    }
}

impl<'a, P> DoubleEndedIterator for RMatchIndices<'a, P>
where
    P: JavaStrPattern,
{
    #[inline]
    fn next_back(&mut self) -> Option<Self::Item> {
        self.inner.next()
    }
}

#[derive(Clone, Debug)]
struct SplitHelper<'a, P> {
    start: usize,
    end: usize,
    haystack: &'a JavaStr,
    pat: P,
    allow_trailing_empty: bool,
    finished: bool,
    had_empty_match: bool,
}

impl<'a, P> SplitHelper<'a, P>
where
    P: JavaStrPattern,
{
    #[inline]
    fn new(haystack: &'a JavaStr, pat: P, allow_trailing_empty: bool) -> Self {
        Self {
            start: 0,
            end: haystack.len(),
            haystack,
            pat,
            allow_trailing_empty,
            finished: false,
            had_empty_match: false,
        }
    }

    #[inline]
    fn get_end(&mut self) -> Option<&'a JavaStr> {
        if !self.finished {
            self.finished = true;

            if self.allow_trailing_empty || self.end - self.start > 0 {
                // SAFETY: `self.start` and `self.end` always lie on unicode boundaries.
                let string = unsafe { self.haystack.get_unchecked(self.start..self.end) };
                return Some(string);
            }
        }

        None
    }

    #[inline]
    fn next_match(&mut self) -> Option<(usize, usize)> {
        // SAFETY: `self.start` always lies on a unicode boundary.
        let substr = unsafe { self.haystack.get_unchecked(self.start..) };

        let result = if self.had_empty_match {
            // if we had an empty match before, we are going to find the empty match again.
            // don't do that, search from the next index along.

            if substr.is_empty() {
                None
            } else {
                // SAFETY: we can pop the string because we already checked if the string is
                // empty above
                let first_char_len = unsafe { substr.chars().next().unwrap_unchecked().len_utf8() };
                let popped_str = unsafe { substr.get_unchecked(first_char_len..) };

                self.pat
                    .find_in(popped_str)
                    .map(|(index, len)| (index + first_char_len + self.start, len))
            }
        } else {
            self.pat
                .find_in(substr)
                .map(|(index, len)| (index + self.start, len))
        };

        self.had_empty_match = result.is_some_and(|(_, len)| len == 0);

        result
    }

    #[inline]
    fn next(&mut self) -> Option<&'a JavaStr> {
        if self.finished {
            return None;
        }

        match self.next_match() {
            Some((index, len)) => unsafe {
                // SAFETY: pattern guarantees valid indices
                let elt = self.haystack.get_unchecked(self.start..index);
                self.start = index + len;
                Some(elt)
            },
            None => self.get_end(),
        }
    }

    #[inline]
    fn next_inclusive(&mut self) -> Option<&'a JavaStr> {
        if self.finished {
            return None;
        }

        match self.next_match() {
            Some((index, len)) => unsafe {
                // SAFETY: pattern guarantees valid indices
                let elt = self.haystack.get_unchecked(self.start..index + len);
                self.start = index + len;
                Some(elt)
            },
            None => self.get_end(),
        }
    }

    #[inline]
    fn next_match_back(&mut self) -> Option<(usize, usize)> {
        // SAFETY: `self.end` always lies on a unicode boundary.
        let substr = unsafe { self.haystack.get_unchecked(..self.end) };

        let result = if self.had_empty_match {
            // if we had an empty match before, we are going to find the empty match again.
            // don't do that, search from the next index along.

            if substr.is_empty() {
                None
            } else {
                // SAFETY: we can pop the string because we already checked if the string is
                // empty above
                let last_char_len =
                    unsafe { substr.chars().next_back().unwrap_unchecked().len_utf8() };
                let popped_str = unsafe { substr.get_unchecked(..substr.len() - last_char_len) };

                self.pat.rfind_in(popped_str)
            }
        } else {
            self.pat.rfind_in(substr)
        };

        self.had_empty_match = result.is_some_and(|(_, len)| len == 0);

        result
    }

    #[inline]
    fn next_back(&mut self) -> Option<&'a JavaStr> {
        if self.finished {
            return None;
        }

        if !self.allow_trailing_empty {
            self.allow_trailing_empty = true;
            match self.next_back() {
                Some(elt) if !elt.is_empty() => return Some(elt),
                _ => {
                    if self.finished {
                        return None;
                    }
                }
            }
        }

        match self.next_match_back() {
            Some((index, len)) => unsafe {
                // SAFETY: pattern guarantees valid indices
                let elt = self.haystack.get_unchecked(index + len..self.end);
                self.end = index;
                Some(elt)
            },
            None => unsafe {
                // SAFETY: `self.start` and `self.end` always lie on unicode boundaries.
                self.finished = true;
                Some(self.haystack.get_unchecked(self.start..self.end))
            },
        }
    }

    #[inline]
    fn next_back_inclusive(&mut self) -> Option<&'a JavaStr> {
        if self.finished {
            return None;
        }

        if !self.allow_trailing_empty {
            self.allow_trailing_empty = true;
            match self.next_back_inclusive() {
                Some(elt) if !elt.is_empty() => return Some(elt),
                _ => {
                    if self.finished {
                        return None;
                    }
                }
            }
        }

        match self.next_match_back() {
            Some((index, len)) => unsafe {
                // SAFETY: pattern guarantees valid indices
                let elt = self.haystack.get_unchecked(index + len..self.end);
                self.end = index + len;
                Some(elt)
            },
            None => unsafe {
                // SAFETY: `self.start` and `self.end` always lie on unicode boundaries.
                self.finished = true;
                Some(self.haystack.get_unchecked(self.start..self.end))
            },
        }
    }
}

#[derive(Clone, Debug)]
pub struct Split<'a, P> {
    inner: SplitHelper<'a, P>,
}

impl<'a, P> Split<'a, P>
where
    P: JavaStrPattern,
{
    #[inline]
    pub(crate) fn new(haystack: &'a JavaStr, pat: P) -> Self {
        Split {
            inner: SplitHelper::new(haystack, pat, true),
        }
    }
}

impl<'a, P> Iterator for Split<'a, P>
where
    P: JavaStrPattern,
{
    type Item = &'a JavaStr;

    #[inline]
    fn next(&mut self) -> Option<Self::Item> {
        self.inner.next()
    }
}

impl<'a, P> DoubleEndedIterator for Split<'a, P>
where
    P: JavaStrPattern,
{
    #[inline]
    fn next_back(&mut self) -> Option<Self::Item> {
        self.inner.next_back()
    }
}

impl<'a, P> FusedIterator for Split<'a, P> where P: JavaStrPattern {}

#[derive(Clone, Debug)]
pub struct RSplit<'a, P> {
    inner: SplitHelper<'a, P>,
}

impl<'a, P> RSplit<'a, P>
where
    P: JavaStrPattern,
{
    #[inline]
    pub(crate) fn new(haystack: &'a JavaStr, pat: P) -> Self {
        RSplit {
            inner: SplitHelper::new(haystack, pat, true),
        }
    }
}

impl<'a, P> Iterator for RSplit<'a, P>
where
    P: JavaStrPattern,
{
    type Item = &'a JavaStr;

    #[inline]
    fn next(&mut self) -> Option<Self::Item> {
        self.inner.next_back()
    }
}

impl<'a, P> DoubleEndedIterator for RSplit<'a, P>
where
    P: JavaStrPattern,
{
    #[inline]
    fn next_back(&mut self) -> Option<Self::Item> {
        self.inner.next()
    }
}

impl<'a, P> FusedIterator for RSplit<'a, P> where P: JavaStrPattern {}

#[derive(Clone, Debug)]
pub struct SplitTerminator<'a, P> {
    inner: SplitHelper<'a, P>,
}

impl<'a, P> SplitTerminator<'a, P>
where
    P: JavaStrPattern,
{
    #[inline]
    pub(crate) fn new(haystack: &'a JavaStr, pat: P) -> Self {
        SplitTerminator {
            inner: SplitHelper::new(haystack, pat, false),
        }
    }
}

impl<'a, P> Iterator for SplitTerminator<'a, P>
where
    P: JavaStrPattern,
{
    type Item = &'a JavaStr;

    #[inline]
    fn next(&mut self) -> Option<Self::Item> {
        self.inner.next()
    }
}

impl<'a, P> DoubleEndedIterator for SplitTerminator<'a, P>
where
    P: JavaStrPattern,
{
    #[inline]
    fn next_back(&mut self) -> Option<Self::Item> {
        self.inner.next_back()
    }
}

impl<'a, P> FusedIterator for SplitTerminator<'a, P> where P: JavaStrPattern {}

#[derive(Clone, Debug)]
pub struct RSplitTerminator<'a, P> {
    inner: SplitHelper<'a, P>,
}

impl<'a, P> RSplitTerminator<'a, P>
where
    P: JavaStrPattern,
{
    #[inline]
    pub(crate) fn new(haystack: &'a JavaStr, pat: P) -> Self {
        RSplitTerminator {
            inner: SplitHelper::new(haystack, pat, false),
        }
    }
}

impl<'a, P> Iterator for RSplitTerminator<'a, P>
where
    P: JavaStrPattern,
{
    type Item = &'a JavaStr;

    #[inline]
    fn next(&mut self) -> Option<Self::Item> {
        self.inner.next_back()
    }
}

impl<'a, P> DoubleEndedIterator for RSplitTerminator<'a, P>
where
    P: JavaStrPattern,
{
    #[inline]
    fn next_back(&mut self) -> Option<Self::Item> {
        self.inner.next()
    }
}

impl<'a, P> FusedIterator for RSplitTerminator<'a, P> where P: JavaStrPattern {}

#[derive(Clone, Debug)]
pub struct SplitInclusive<'a, P> {
    inner: SplitHelper<'a, P>,
}

impl<'a, P> SplitInclusive<'a, P>
where
    P: JavaStrPattern,
{
    #[inline]
    pub(crate) fn new(haystack: &'a JavaStr, pat: P) -> Self {
        SplitInclusive {
            inner: SplitHelper::new(haystack, pat, false),
        }
    }
}

impl<'a, P> Iterator for SplitInclusive<'a, P>
where
    P: JavaStrPattern,
{
    type Item = &'a JavaStr;

    #[inline]
    fn next(&mut self) -> Option<Self::Item> {
        self.inner.next_inclusive()
    }
}

impl<'a, P> DoubleEndedIterator for SplitInclusive<'a, P>
where
    P: JavaStrPattern,
{
    #[inline]
    fn next_back(&mut self) -> Option<Self::Item> {
        self.inner.next_back_inclusive()
    }
}

impl<'a, P> FusedIterator for SplitInclusive<'a, P> where P: JavaStrPattern {}

#[derive(Clone, Debug)]
pub struct SplitN<'a, P> {
    inner: SplitHelper<'a, P>,
    count: usize,
}

impl<'a, P> SplitN<'a, P>
where
    P: JavaStrPattern,
{
    #[inline]
    pub(crate) fn new(haystack: &'a JavaStr, pat: P, count: usize) -> Self {
        SplitN {
            inner: SplitHelper::new(haystack, pat, true),
            count,
        }
    }
}

impl<'a, P> Iterator for SplitN<'a, P>
where
    P: JavaStrPattern,
{
    type Item = &'a JavaStr;

    #[inline]
    fn next(&mut self) -> Option<Self::Item> {
        match self.count {
            0 => None,
            1 => {
                self.count = 0;
                self.inner.get_end()
            }
            _ => {
                self.count -= 1;
                self.inner.next()
            }
        }
    }
}

impl<'a, P> FusedIterator for SplitN<'a, P> where P: JavaStrPattern {}

#[derive(Clone, Debug)]
pub struct RSplitN<'a, P> {
    inner: SplitHelper<'a, P>,
    count: usize,
}

impl<'a, P> RSplitN<'a, P>
where
    P: JavaStrPattern,
{
    #[inline]
    pub(crate) fn new(haystack: &'a JavaStr, pat: P, count: usize) -> Self {
        RSplitN {
            inner: SplitHelper::new(haystack, pat, true),
            count,
        }
    }
}

impl<'a, P> Iterator for RSplitN<'a, P>
where
    P: JavaStrPattern,
{
    type Item = &'a JavaStr;

    #[inline]
    fn next(&mut self) -> Option<Self::Item> {
        match self.count {
            0 => None,
            1 => {
                self.count = 0;
                self.inner.get_end()
            }
            _ => {
                self.count -= 1;
                self.inner.next_back()
            }
        }
    }
}

impl<'a, P> FusedIterator for RSplitN<'a, P> where P: JavaStrPattern {}

#[derive(Clone, Debug)]
pub struct SplitAsciiWhitespace<'a> {
    #[allow(clippy::type_complexity)]
    pub(crate) inner: Map<
        Filter<slice::Split<'a, u8, fn(&u8) -> bool>, fn(&&[u8]) -> bool>,
        fn(&[u8]) -> &JavaStr,
    >,
}
delegate!(Iterator for SplitAsciiWhitespace<'a> => &'a JavaStr);
delegate!(DoubleEndedIterator for SplitAsciiWhitespace<'a>);
delegate!(FusedIterator for SplitAsciiWhitespace<'a>);

#[derive(Clone, Debug)]
pub struct SplitWhitespace<'a> {
    #[allow(clippy::type_complexity)]
    pub(crate) inner: Filter<Split<'a, fn(JavaCodePoint) -> bool>, fn(&&JavaStr) -> bool>,
}
delegate!(Iterator for SplitWhitespace<'a> => &'a JavaStr);
delegate!(DoubleEndedIterator for SplitWhitespace<'a>);
delegate!(FusedIterator for SplitWhitespace<'a>);
