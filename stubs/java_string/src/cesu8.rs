use std::borrow::Cow;

use crate::validations::{utf8_char_width, CONT_MASK, TAG_CONT};
use crate::{JavaStr, JavaString, Utf8Error};

impl JavaStr {
    /// Converts from Java's [modified UTF-8](https://docs.oracle.com/javase/8/docs/api/java/io/DataInput.html#modified-utf-8) format to a `Cow<JavaStr>`.
    ///
    /// ```
    /// # use std::borrow::Cow;
    /// # use java_string::{JavaCodePoint, JavaStr, JavaString};
    ///
    /// let result = JavaStr::from_modified_utf8("Hello World!".as_bytes()).unwrap();
    /// assert!(matches!(result, Cow::Borrowed(_)));
    /// assert_eq!(JavaStr::from_str("Hello World!"), result);
    ///
    /// let result = JavaStr::from_modified_utf8(&[
    ///     0x61, 0x62, 0x63, 0xc0, 0x80, 0xe2, 0x84, 0x9d, 0xed, 0xa0, 0xbd, 0xed, 0xb2, 0xa3, 0xed,
    ///     0xa0, 0x80,
    /// ])
    /// .unwrap();
    /// assert!(matches!(result, Cow::Owned(_)));
    /// let mut expected = JavaString::from("abc\0ℝ💣");
    /// expected.push_java(JavaCodePoint::from_u32(0xd800).unwrap());
    /// assert_eq!(expected, result);
    ///
    /// let result = JavaStr::from_modified_utf8(&[0xed]);
    /// assert!(result.is_err());
    /// ```
    #[inline]
    pub fn from_modified_utf8(bytes: &[u8]) -> Result<Cow<JavaStr>, Utf8Error> {
        match JavaStr::from_full_utf8(bytes) {
            Ok(str) => Ok(Cow::Borrowed(str)),
            Err(_) => JavaString::from_modified_utf8_internal(bytes).map(Cow::Owned),
        }
    }

    /// Converts to Java's [modified UTF-8](https://docs.oracle.com/javase/8/docs/api/java/io/DataInput.html#modified-utf-8) format.
    ///
    /// ```
    /// # use std::borrow::Cow;
    /// # use java_string::{JavaCodePoint, JavaStr, JavaString};
    ///
    /// let result = JavaStr::from_str("Hello World!").to_modified_utf8();
    /// assert!(matches!(result, Cow::Borrowed(_)));
    /// assert_eq!(result, &b"Hello World!"[..]);
    ///
    /// let mut str = JavaString::from("abc\0ℝ💣");
    /// str.push_java(JavaCodePoint::from_u32(0xd800).unwrap());
    /// let result = str.to_modified_utf8();
    /// let expected = [
    ///     0x61, 0x62, 0x63, 0xc0, 0x80, 0xe2, 0x84, 0x9d, 0xed, 0xa0, 0xbd, 0xed, 0xb2, 0xa3, 0xed,
    ///     0xa0, 0x80,
    /// ];
    /// assert!(matches!(result, Cow::Owned(_)));
    /// assert_eq!(result, &expected[..]);
    /// ```
    #[inline]
    #[must_use]
    pub fn to_modified_utf8(&self) -> Cow<[u8]> {
        if is_valid_cesu8(self) {
            Cow::Borrowed(self.as_bytes())
        } else {
            Cow::Owned(self.to_modified_utf8_internal())
        }
    }

    #[inline]
    fn to_modified_utf8_internal(&self) -> Vec<u8> {
        let bytes = self.as_bytes();
        let mut encoded = Vec::with_capacity((bytes.len() + bytes.len()) >> 2);
        let mut i = 0;
        while i < bytes.len() {
            let b = bytes[i];
            if b == 0 {
                encoded.extend([0xc0, 0x80]);
                i += 1;
            } else if b < 128 {
                // Pass ASCII through quickly.
                encoded.push(b);
                i += 1;
            } else {
                // Figure out how many bytes we need for this character.
                let w = utf8_char_width(b);
                let char_bytes = unsafe {
                    // SAFETY: input must be valid semi UTF-8, so there must be at least w more
                    // bytes from i
                    bytes.get_unchecked(i..i + w)
                };
                if w != 4 {
                    // Pass through short UTF-8 sequences unmodified.
                    encoded.extend(char_bytes.iter().copied())
                } else {
                    // Encode 4-byte sequences as 6 bytes
                    let s = unsafe {
                        // SAFETY: input is valid semi UTF-8
                        JavaStr::from_semi_utf8_unchecked(char_bytes)
                    };
                    let c = unsafe {
                        // SAFETY: s contains a single char of width 4
                        s.chars().next().unwrap_unchecked().as_u32() - 0x10000
                    };
                    let s = [((c >> 10) as u16) | 0xd800, ((c & 0x3ff) as u16) | 0xdc00];
                    encoded.extend(enc_surrogate(s[0]));
                    encoded.extend(enc_surrogate(s[1]));
                }
                i += w;
            }
        }
        encoded
    }
}

impl JavaString {
    /// Converts from Java's [modified UTF-8](https://docs.oracle.com/javase/8/docs/api/java/io/DataInput.html#modified-utf-8) format to a `JavaString`.
    ///
    /// See [JavaStr::from_modified_utf8].
    #[inline]
    pub fn from_modified_utf8(bytes: Vec<u8>) -> Result<JavaString, Utf8Error> {
        match JavaString::from_full_utf8(bytes) {
            Ok(str) => Ok(str),
            Err(err) => JavaString::from_modified_utf8_internal(&err.bytes),
        }
    }

    fn from_modified_utf8_internal(slice: &[u8]) -> Result<JavaString, Utf8Error> {
        let mut offset = 0;
        let mut decoded = Vec::with_capacity(slice.len() + 1);

        while let Some(&first) = slice.get(offset) {
            let old_offset = offset;
            offset += 1;

            macro_rules! err {
                ($error_len:expr) => {
                    return Err(Utf8Error {
                        valid_up_to: old_offset,
                        error_len: $error_len,
                    })
                };
            }

            macro_rules! next {
                () => {{
                    if let Some(&b) = slice.get(offset) {
                        offset += 1;
                        b
                    } else {
                        err!(None)
                    }
                }};
            }

            macro_rules! next_cont {
                ($error_len:expr) => {{
                    let byte = next!();
                    if (byte) & !CONT_MASK == TAG_CONT {
                        byte
                    } else {
                        err!($error_len)
                    }
                }};
            }

            if first == 0 {
                // modified UTF-8 should never contain \0 directly.
                err!(Some(1));
            } else if first < 128 {
                // Pass ASCII through directly.
                decoded.push(first);
            } else if first == 0xc0 {
                // modified UTF-8 encoding of null character
                match next!() {
                    0x80 => decoded.push(0),
                    _ => err!(Some(1)),
                }
            } else {
                let w = utf8_char_width(first);
                let second = next_cont!(Some(1));
                match w {
                    // Two-byte sequences can be used directly.
                    2 => {
                        decoded.extend([first, second]);
                    }
                    3 => {
                        let third = next_cont!(Some(2));
                        match (first, second) {
                            // These are valid UTF-8, so pass them through.
                            (0xe0, 0xa0..=0xbf)
                            | (0xe1..=0xec, 0x80..=0xbf)
                            | (0xed, 0x80..=0x9f)
                            | (0xee..=0xef, 0x80..=0xbf)
                            // Second half of a surrogate pair without a preceding first half, also pass this through.
                            | (0xed, 0xb0..=0xbf)
                            => decoded.extend([first, second, third]),
                            // First half of a surrogate pair
                            (0xed, 0xa0..=0xaf) => {
                                // Peek ahead and try to pair the first half of surrogate pair with
                                // second.
                                match &slice[offset..] {
                                    [0xed, fifth @ 0xb0..=0xbf, sixth, ..]
                                    if *sixth & !CONT_MASK == TAG_CONT =>
                                        {
                                            let s = dec_surrogates(second, third, *fifth, *sixth);
                                            decoded.extend(s);
                                            offset += 3;
                                        }
                                    _ => {
                                        // No second half, append the first half directly.
                                        decoded.extend([first, second, third]);
                                    }
                                }
                            }
                            _ => err!(Some(1)),
                        }
                    }
                    _ => err!(Some(1)), // modified UTF-8 doesn't allow width 4
                }
            }
        }

        unsafe {
            // SAFETY: we built a semi UTF-8 encoded string
            Ok(JavaString::from_semi_utf8_unchecked(decoded))
        }
    }

    /// Converts to Java's [modified UTF-8](https://docs.oracle.com/javase/8/docs/api/java/io/DataInput.html#modified-utf-8) format.
    ///
    /// See [JavaStr::to_modified_utf8].
    #[inline]
    #[must_use]
    pub fn into_modified_utf8(self) -> Vec<u8> {
        if is_valid_cesu8(&self) {
            self.into_bytes()
        } else {
            self.to_modified_utf8_internal()
        }
    }
}

#[inline]
fn dec_surrogate(second: u8, third: u8) -> u32 {
    0xd000 | ((second & CONT_MASK) as u32) << 6 | (third & CONT_MASK) as u32
}

#[inline]
fn dec_surrogates(second: u8, third: u8, fifth: u8, sixth: u8) -> [u8; 4] {
    // Convert to a 32-bit code point.
    let s1 = dec_surrogate(second, third);
    let s2 = dec_surrogate(fifth, sixth);
    let c = 0x10000 + (((s1 - 0xd800) << 10) | (s2 - 0xdc00));
    assert!((0x010000..=0x10ffff).contains(&c));

    // Convert to UTF-8.
    // 11110xxx 10xxxxxx 10xxxxxx 10xxxxxx
    [
        0b1111_0000u8 | ((c & 0b1_1100_0000_0000_0000_0000) >> 18) as u8,
        TAG_CONT | ((c & 0b0_0011_1111_0000_0000_0000) >> 12) as u8,
        TAG_CONT | ((c & 0b0_0000_0000_1111_1100_0000) >> 6) as u8,
        TAG_CONT | (c & 0b0_0000_0000_0000_0011_1111) as u8,
    ]
}

#[inline]
fn is_valid_cesu8(text: &JavaStr) -> bool {
    text.bytes()
        .all(|b| b != 0 && ((b & !CONT_MASK) == TAG_CONT || utf8_char_width(b) <= 3))
}

#[inline]
fn enc_surrogate(surrogate: u16) -> [u8; 3] {
    // 1110xxxx 10xxxxxx 10xxxxxx
    [
        0b11100000 | ((surrogate & 0b11110000_00000000) >> 12) as u8,
        TAG_CONT | ((surrogate & 0b00001111_11000000) >> 6) as u8,
        TAG_CONT | (surrogate & 0b00000000_00111111) as u8,
    ]
}
