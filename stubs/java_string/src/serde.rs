use std::fmt::Formatter;

use serde::de::value::SeqAccessDeserializer;
use serde::de::{Error, SeqAccess, Unexpected, Visitor};
use serde::ser::SerializeSeq;
use serde::{Deserialize, Deserializer, Serialize, Serializer};

use crate::{JavaCodePoint, JavaStr, JavaString};

impl Serialize for JavaString {
    #[inline]
    fn serialize<S>(&self, serializer: S) -> Result<S::Ok, S::Error>
    where
        S: Serializer,
    {
        match self.as_str() {
            Ok(str) => str.serialize(serializer),
            Err(_) => {
                let mut seq = serializer.serialize_seq(None)?;
                for ch in self.chars() {
                    seq.serialize_element(&ch.as_u32())?;
                }
                seq.end()
            }
        }
    }
}

impl<'de> Deserialize<'de> for JavaString {
    #[inline]
    fn deserialize<D>(deserializer: D) -> Result<Self, D::Error>
    where
        D: Deserializer<'de>,
    {
        deserializer.deserialize_any(JavaStringVisitor)
    }
}

struct JavaStringVisitor;

impl<'de> Visitor<'de> for JavaStringVisitor {
    type Value = JavaString;

    fn expecting(&self, formatter: &mut Formatter) -> std::fmt::Result {
        formatter.write_str("a JavaString")
    }

    fn visit_str<E>(self, v: &str) -> Result<Self::Value, E>
    where
        E: Error,
    {
        Ok(JavaString::from(v))
    }

    fn visit_string<E>(self, v: String) -> Result<Self::Value, E>
    where
        E: Error,
    {
        Ok(JavaString::from(v))
    }

    fn visit_bytes<E>(self, v: &[u8]) -> Result<Self::Value, E>
    where
        E: Error,
    {
        match JavaStr::from_semi_utf8(v) {
            Ok(str) => Ok(str.to_owned()),
            Err(_) => Err(Error::invalid_value(Unexpected::Bytes(v), &self)),
        }
    }

    fn visit_byte_buf<E>(self, v: Vec<u8>) -> Result<Self::Value, E>
    where
        E: Error,
    {
        JavaString::from_semi_utf8(v)
            .map_err(|err| Error::invalid_value(Unexpected::Bytes(&err.into_bytes()), &self))
    }

    fn visit_seq<A>(self, seq: A) -> Result<Self::Value, A::Error>
    where
        A: SeqAccess<'de>,
    {
        let vec = Vec::<u8>::deserialize(SeqAccessDeserializer::new(seq))?;
        JavaString::from_semi_utf8(vec).map_err(|_| Error::invalid_value(Unexpected::Seq, &self))
    }
}

impl Serialize for JavaStr {
    #[inline]
    fn serialize<S>(&self, serializer: S) -> Result<S::Ok, S::Error>
    where
        S: Serializer,
    {
        match self.as_str() {
            Ok(str) => str.serialize(serializer),
            Err(_) => {
                let mut seq = serializer.serialize_seq(None)?;
                for ch in self.chars() {
                    seq.serialize_element(&ch.as_u32())?;
                }
                seq.end()
            }
        }
    }
}

impl<'de: 'a, 'a> Deserialize<'de> for &'a JavaStr {
    #[inline]
    fn deserialize<D>(deserializer: D) -> Result<Self, D::Error>
    where
        D: Deserializer<'de>,
    {
        deserializer.deserialize_any(JavaStrVisitor)
    }
}

struct JavaStrVisitor;

impl<'de> Visitor<'de> for JavaStrVisitor {
    type Value = &'de JavaStr;

    fn expecting(&self, formatter: &mut Formatter) -> std::fmt::Result {
        formatter.write_str("a borrowed JavaStr")
    }

    fn visit_borrowed_str<E>(self, v: &'de str) -> Result<Self::Value, E>
    where
        E: Error,
    {
        Ok(JavaStr::from_str(v))
    }

    fn visit_borrowed_bytes<E>(self, v: &'de [u8]) -> Result<Self::Value, E>
    where
        E: Error,
    {
        JavaStr::from_semi_utf8(v).map_err(|_| Error::invalid_value(Unexpected::Bytes(v), &self))
    }
}

impl Serialize for JavaCodePoint {
    #[inline]
    fn serialize<S>(&self, serializer: S) -> Result<S::Ok, S::Error>
    where
        S: Serializer,
    {
        match self.as_char() {
            Some(ch) => ch.serialize(serializer),
            None => self.as_u32().serialize(serializer),
        }
    }
}

impl<'de> Deserialize<'de> for JavaCodePoint {
    fn deserialize<D>(deserializer: D) -> Result<Self, D::Error>
    where
        D: Deserializer<'de>,
    {
        deserializer.deserialize_any(JavaCodePointVisitor)
    }
}

struct JavaCodePointVisitor;

impl<'de> Visitor<'de> for JavaCodePointVisitor {
    type Value = JavaCodePoint;

    fn expecting(&self, formatter: &mut Formatter) -> std::fmt::Result {
        formatter.write_str("a character")
    }

    #[inline]
    fn visit_i8<E>(self, v: i8) -> Result<Self::Value, E>
    where
        E: Error,
    {
        self.visit_i32(v as i32)
    }

    #[inline]
    fn visit_i16<E>(self, v: i16) -> Result<Self::Value, E>
    where
        E: Error,
    {
        self.visit_i32(v as i32)
    }

    fn visit_i32<E>(self, v: i32) -> Result<Self::Value, E>
    where
        E: Error,
    {
        if v < 0 {
            Err(Error::invalid_value(Unexpected::Signed(v as i64), &self))
        } else {
            self.visit_u32(v as u32)
        }
    }

    fn visit_i64<E>(self, v: i64) -> Result<Self::Value, E>
    where
        E: Error,
    {
        if v < 0 {
            Err(Error::invalid_value(Unexpected::Signed(v), &self))
        } else {
            self.visit_u64(v as u64)
        }
    }

    #[inline]
    fn visit_u8<E>(self, v: u8) -> Result<Self::Value, E>
    where
        E: Error,
    {
        self.visit_u32(v as u32)
    }

    #[inline]
    fn visit_u16<E>(self, v: u16) -> Result<Self::Value, E>
    where
        E: Error,
    {
        self.visit_u32(v as u32)
    }

    fn visit_u32<E>(self, v: u32) -> Result<Self::Value, E>
    where
        E: Error,
    {
        JavaCodePoint::from_u32(v)
            .ok_or_else(|| Error::invalid_value(Unexpected::Unsigned(v as u64), &self))
    }

    fn visit_u64<E>(self, v: u64) -> Result<Self::Value, E>
    where
        E: Error,
    {
        if v > u32::MAX as u64 {
            Err(Error::invalid_value(Unexpected::Unsigned(v), &self))
        } else {
            self.visit_u32(v as u32)
        }
    }

    fn visit_char<E>(self, v: char) -> Result<Self::Value, E>
    where
        E: Error,
    {
        Ok(JavaCodePoint::from_char(v))
    }

    fn visit_str<E>(self, v: &str) -> Result<Self::Value, E>
    where
        E: Error,
    {
        let mut iter = v.chars();
        match (iter.next(), iter.next()) {
            (Some(c), None) => Ok(JavaCodePoint::from_char(c)),
            _ => Err(Error::invalid_value(Unexpected::Str(v), &self)),
        }
    }
}
