use std::borrow::{Borrow, BorrowMut, Cow};
use std::collections::{Bound, TryReserveError};
use std::convert::Infallible;
use std::fmt::{Debug, Display, Formatter, Write};
use std::hash::{Hash, Hasher};
use std::iter::FusedIterator;
use std::ops::{
    Add, AddAssign, Deref, DerefMut, Index, IndexMut, Range, RangeBounds, RangeFrom, RangeFull,
    RangeInclusive, RangeTo, RangeToInclusive,
};
use std::rc::Rc;
use std::str::FromStr;
use std::sync::Arc;
use std::{ptr, slice};

use crate::validations::{
    run_utf8_full_validation_from_semi, run_utf8_semi_validation, to_range_checked,
};
use crate::{Chars, FromUtf8Error, JavaCodePoint, JavaStr, Utf8Error};

#[derive(Default, PartialEq, PartialOrd, Eq, Ord)]
pub struct JavaString {
    vec: Vec<u8>,
}

impl JavaString {
    #[inline]
    #[must_use]
    pub const fn new() -> JavaString {
        JavaString { vec: Vec::new() }
    }

    #[inline]
    #[must_use]
    pub fn with_capacity(capacity: usize) -> JavaString {
        JavaString {
            vec: Vec::with_capacity(capacity),
        }
    }

    /// Converts `vec` to a `JavaString` if it is fully-valid UTF-8, i.e. UTF-8
    /// without surrogate code points. See [`String::from_utf8`].
    #[inline]
    pub fn from_full_utf8(vec: Vec<u8>) -> Result<JavaString, FromUtf8Error> {
        match std::str::from_utf8(&vec) {
            Ok(..) => Ok(JavaString { vec }),
            Err(e) => Err(FromUtf8Error {
                bytes: vec,
                error: e.into(),
            }),
        }
    }

    /// Converts `vec` to a `JavaString` if it is semi-valid UTF-8, i.e. UTF-8
    /// with surrogate code points.
    ///
    /// ```
    /// # use java_string::{JavaCodePoint, JavaString};
    ///
    /// assert_eq!(
    ///     JavaString::from_semi_utf8(b"Hello World!".to_vec()).unwrap(),
    ///     "Hello World!"
    /// );
    /// assert_eq!(
    ///     JavaString::from_semi_utf8(vec![0xf0, 0x9f, 0x92, 0x96]).unwrap(),
    ///     "💖"
    /// );
    /// assert_eq!(
    ///     JavaString::from_semi_utf8(vec![0xed, 0xa0, 0x80]).unwrap(),
    ///     JavaString::from(JavaCodePoint::from_u32(0xd800).unwrap())
    /// );
    /// assert!(JavaString::from_semi_utf8(vec![0xed]).is_err());
    /// ```
    pub fn from_semi_utf8(vec: Vec<u8>) -> Result<JavaString, FromUtf8Error> {
        match run_utf8_semi_validation(&vec) {
            Ok(..) => Ok(JavaString { vec }),
            Err(err) => Err(FromUtf8Error {
                bytes: vec,
                error: err,
            }),
        }
    }

    /// Converts `v` to a `Cow<JavaStr>`, replacing invalid semi-UTF-8 with the
    /// replacement character �.
    ///
    /// ```
    /// # use std::borrow::Cow;
    /// # use java_string::{JavaStr, JavaString};
    ///
    /// let sparkle_heart = [0xf0, 0x9f, 0x92, 0x96];
    /// let result = JavaString::from_semi_utf8_lossy(&sparkle_heart);
    /// assert!(matches!(result, Cow::Borrowed(_)));
    /// assert_eq!(result, JavaStr::from_str("💖"));
    ///
    /// let foobar_with_error = [b'f', b'o', b'o', 0xed, b'b', b'a', b'r'];
    /// let result = JavaString::from_semi_utf8_lossy(&foobar_with_error);
    /// assert!(matches!(result, Cow::Owned(_)));
    /// assert_eq!(result, JavaStr::from_str("foo�bar"));
    /// ```
    #[must_use]
    pub fn from_semi_utf8_lossy(v: &[u8]) -> Cow<'_, JavaStr> {
        const REPLACEMENT: &str = "\u{FFFD}";

        match run_utf8_semi_validation(v) {
            Ok(()) => unsafe {
                // SAFETY: validation succeeded
                Cow::Borrowed(JavaStr::from_semi_utf8_unchecked(v))
            },
            Err(error) => {
                let mut result = unsafe {
                    // SAFETY: validation succeeded up to this index
                    JavaString::from_semi_utf8_unchecked(
                        v.get_unchecked(..error.valid_up_to).to_vec(),
                    )
                };
                result.push_str(REPLACEMENT);
                let mut index = error.valid_up_to + error.error_len.unwrap_or(1) as usize;
                loop {
                    match run_utf8_semi_validation(&v[index..]) {
                        Ok(()) => {
                            unsafe {
                                // SAFETY: validation succeeded
                                result
                                    .push_java_str(JavaStr::from_semi_utf8_unchecked(&v[index..]));
                            }
                            return Cow::Owned(result);
                        }
                        Err(error) => {
                            unsafe {
                                // SAFETY: validation succeeded up to this index
                                result.push_java_str(JavaStr::from_semi_utf8_unchecked(
                                    v.get_unchecked(index..index + error.valid_up_to),
                                ));
                            }
                            result.push_str(REPLACEMENT);
                            index += error.valid_up_to + error.error_len.unwrap_or(1) as usize;
                        }
                    }
                }
            }
        }
    }

    /// # Safety
    ///
    /// The parameter must be in semi-valid UTF-8 format, that is, UTF-8 plus
    /// surrogate code points.
    #[inline]
    #[must_use]
    pub unsafe fn from_semi_utf8_unchecked(bytes: Vec<u8>) -> JavaString {
        JavaString { vec: bytes }
    }

    /// See [`String::into_bytes`].
    #[inline]
    #[must_use]
    pub fn into_bytes(self) -> Vec<u8> {
        self.vec
    }

    /// See [`String::as_str`].
    #[inline]
    #[must_use]
    pub fn as_java_str(&self) -> &JavaStr {
        unsafe {
            // SAFETY: this str has semi-valid UTF-8
            JavaStr::from_semi_utf8_unchecked(&self.vec)
        }
    }

    /// See [`String::as_mut_str`].
    #[inline]
    #[must_use]
    pub fn as_mut_java_str(&mut self) -> &mut JavaStr {
        unsafe {
            // SAFETY: this str has semi-valid UTF-8
            JavaStr::from_semi_utf8_unchecked_mut(&mut self.vec)
        }
    }

    /// Tries to convert this `JavaString` to a `String`, returning an error if
    /// it is not fully valid UTF-8, i.e. has no surrogate code points.
    ///
    /// ```
    /// # use java_string::{JavaCodePoint, JavaString};
    ///
    /// assert_eq!(
    ///     JavaString::from("Hello World!").into_string().unwrap(),
    ///     "Hello World!"
    /// );
    /// assert_eq!(
    ///     JavaString::from("abc\0ℝ💣").into_string().unwrap(),
    ///     "abc\0ℝ💣"
    /// );
    ///
    /// let string_with_error = JavaString::from("abc")
    ///     + JavaString::from(JavaCodePoint::from_u32(0xd800).unwrap()).as_java_str();
    /// assert!(string_with_error.into_string().is_err());
    /// ```
    pub fn into_string(self) -> Result<String, Utf8Error> {
        run_utf8_full_validation_from_semi(self.as_bytes()).map(|_| unsafe {
            // SAFETY: validation succeeded
            self.into_string_unchecked()
        })
    }

    /// # Safety
    ///
    /// This string must be fully valid UTF-8, i.e. have no surrogate code
    /// points.
    #[inline]
    #[must_use]
    pub unsafe fn into_string_unchecked(self) -> String {
        // SAFETY: preconditions checked by caller
        String::from_utf8_unchecked(self.vec)
    }

    /// See [`String::push_str`].
    #[inline]
    pub fn push_java_str(&mut self, string: &JavaStr) {
        self.vec.extend_from_slice(string.as_bytes())
    }

    /// See [`String::push_str`].
    #[inline]
    pub fn push_str(&mut self, string: &str) {
        self.vec.extend_from_slice(string.as_bytes())
    }

    /// See [`String::capacity`].
    #[inline]
    #[must_use]
    pub fn capacity(&self) -> usize {
        self.vec.capacity()
    }

    /// See [`String::reserve`].
    #[inline]
    pub fn reserve(&mut self, additional: usize) {
        self.vec.reserve(additional)
    }

    /// See [`String::reserve_exact`].
    #[inline]
    pub fn reserve_exact(&mut self, additional: usize) {
        self.vec.reserve_exact(additional)
    }

    /// See [`String::try_reserve`].
    #[inline]
    pub fn try_reserve(&mut self, additional: usize) -> Result<(), TryReserveError> {
        self.vec.try_reserve(additional)
    }

    /// See [`String::try_reserve_exact`].
    #[inline]
    pub fn try_reserve_exact(&mut self, additional: usize) -> Result<(), TryReserveError> {
        self.vec.try_reserve_exact(additional)
    }

    /// See [`String::shrink_to_fit`].
    #[inline]
    pub fn shrink_to_fit(&mut self) {
        self.vec.shrink_to_fit()
    }

    /// See [`String::shrink_to`].
    #[inline]
    pub fn shrink_to(&mut self, min_capacity: usize) {
        self.vec.shrink_to(min_capacity)
    }

    /// See [`String::push`].
    #[inline]
    pub fn push(&mut self, ch: char) {
        #[cfg(kani)]
        {
            // VERIF MODEL (cfg(kani) only): ASCII strings, one byte per char
            assert!((ch as u32) < 0x80, "VERIF-MODEL: non-ASCII char pushed");
            self.vec.push(ch as u8);
            return;
        }
        match ch.len_utf8() {
            1 => self.vec.push(ch as u8),
            _ => self
                .vec
                .extend_from_slice(ch.encode_utf8(&mut [0; 4]).as_bytes()),
        }
    }

    /// See [`String::push`].
    #[inline]
    pub fn push_java(&mut self, ch: JavaCodePoint) {
        #[cfg(kani)]
        {
            // VERIF MODEL (cfg(kani) only): ASCII strings, one byte per char
            assert!(ch.as_u32() < 0x80, "VERIF-MODEL: non-ASCII code point pushed");
            self.vec.push(ch.as_u32() as u8);
            return;
        }
        match ch.len_utf8() {
            1 => self.vec.push(ch.as_u32() as u8),
            _ => self.vec.extend_from_slice(ch.encode_semi_utf8(&mut [0; 4])),
        }
    }

    /// See [`String::as_bytes`].
    #[inline]
    #[must_use]
    pub fn as_bytes(&self) -> &[u8] {
        &self.vec
    }

    /// See [`String::truncate`].
    #[inline]
    pub fn truncate(&mut self, new_len: usize) {
        if new_len <= self.len() {
            assert!(self.is_char_boundary(new_len));
            self.vec.truncate(new_len)
        }
    }

    /// See [`String::pop`].
    ///
    /// ```
    /// # use java_string::JavaString;
    ///
    /// let mut str = JavaString::from("Hello World!");
    /// assert_eq!(str.pop().unwrap(), '!');
    /// assert_eq!(str, "Hello World");
    ///
    /// let mut str = JavaString::from("東京");
    /// assert_eq!(str.pop().unwrap(), '京');
    /// assert_eq!(str, "東");
    ///
    /// assert!(JavaString::new().pop().is_none());
    /// ```
    #[inline]
    pub fn pop(&mut self) -> Option<JavaCodePoint> {
        let ch = self.chars().next_back()?;
        let newlen = self.len() - ch.len_utf8();
        unsafe {
            self.vec.set_len(newlen);
        }
        Some(ch)
    }

    /// See [`String::remove`].
    ///
    /// ```
    /// # use java_string::JavaString;
    ///
    /// let mut str = JavaString::from("Hello World!");
    /// assert_eq!(str.remove(5), ' ');
    /// assert_eq!(str, "HelloWorld!");
    ///
    /// let mut str = JavaString::from("Hello 🦀 World!");
    /// assert_eq!(str.remove(6), '🦀');
    /// assert_eq!(str, "Hello  World!");
    /// ```
    /// ```should_panic
    /// # use java_string::JavaString;
    /// // Should panic
    /// JavaString::new().remove(0);
    /// ```
    /// ```should_panic
    /// # use java_string::JavaString;
    /// // Should panic
    /// JavaString::from("🦀").remove(1);
    /// ```
    #[inline]
    pub fn remove(&mut self, idx: usize) -> JavaCodePoint {
        let ch = match self[idx..].chars().next() {
            Some(ch) => ch,
            None => panic!("cannot remove a char from the end of a string"),
        };

        let next = idx + ch.len_utf8();
        let len = self.len();
        unsafe {
            ptr::copy(
                self.vec.as_ptr().add(next),
                self.vec.as_mut_ptr().add(idx),
                len - next,
            );
            self.vec.set_len(len - (next - idx));
        }
        ch
    }

    /// See [`String::retain`].
    ///
    /// ```
    /// # use java_string::{JavaCodePoint, JavaString};
    ///
    /// let mut str = JavaString::from("Hello 🦀 World!");
    /// str.retain(|ch| !ch.is_ascii_uppercase());
    /// assert_eq!(str, "ello 🦀 orld!");
    /// str.retain(JavaCodePoint::is_ascii);
    /// assert_eq!(str, "ello  orld!");
    /// ```
    #[inline]
    pub fn retain<F>(&mut self, mut f: F)
    where
        F: FnMut(JavaCodePoint) -> bool,
    {
        struct SetLenOnDrop<'a> {
            s: &'a mut JavaString,
            idx: usize,
            del_bytes: usize,
        }

        impl<'a> Drop for SetLenOnDrop<'a> {
            #[inline]
            fn drop(&mut self) {
                let new_len = self.idx - self.del_bytes;
                debug_assert!(new_len <= self.s.len());
                unsafe { self.s.vec.set_len(new_len) };
            }
        }

        let len = self.len();
        let mut guard = SetLenOnDrop {
            s: self,
            idx: 0,
            del_bytes: 0,
        };

        while guard.idx < len {
            // SAFETY: `guard.idx` is positive-or-zero and less that len so the
            // `get_unchecked` is in bound. `self` is valid UTF-8 like string
            // and the returned slice starts at a unicode code point so the
            // `Chars` always return one character.
            let ch = unsafe {
                guard
                    .s
                    .get_unchecked(guard.idx..len)
                    .chars()
                    .next()
                    .unwrap_unchecked()
            };
            let ch_len = ch.len_utf8();

            if !f(ch) {
                guard.del_bytes += ch_len;
            } else if guard.del_bytes > 0 {
                // SAFETY: `guard.idx` is in bound and `guard.del_bytes` represent the number of
                // bytes that are erased from the string so the resulting `guard.idx -
                // guard.del_bytes` always represent a valid unicode code point.
                //
                // `guard.del_bytes` >= `ch.len_utf8()`, so taking a slice with `ch.len_utf8()`
                // len is safe.
                ch.encode_semi_utf8(unsafe {
                    slice::from_raw_parts_mut(
                        guard.s.as_mut_ptr().add(guard.idx - guard.del_bytes),
                        ch.len_utf8(),
                    )
                });
            }

            // Point idx to the next char
            guard.idx += ch_len;
        }

        drop(guard);
    }

    /// See [`String::insert`].
    ///
    /// ```
    /// # use java_string::JavaString;
    /// let mut s = JavaString::from("foo");
    /// s.insert(3, 'a');
    /// s.insert(4, 'r');
    /// s.insert(3, 'b');
    /// assert_eq!(s, "foobar");
    /// ```
    #[inline]
    pub fn insert(&mut self, idx: usize, ch: char) {
        assert!(self.is_char_boundary(idx));
        let mut bits = [0; 4];
        let bits = ch.encode_utf8(&mut bits).as_bytes();

        unsafe {
            self.insert_bytes(idx, bits);
        }
    }

    /// See [`String::insert`].
    #[inline]
    pub fn insert_java(&mut self, idx: usize, ch: JavaCodePoint) {
        assert!(self.is_char_boundary(idx));
        let mut bits = [0; 4];
        let bits = ch.encode_semi_utf8(&mut bits);

        unsafe {
            self.insert_bytes(idx, bits);
        }
    }

    #[inline]
    unsafe fn insert_bytes(&mut self, idx: usize, bytes: &[u8]) {
        let len = self.len();
        let amt = bytes.len();
        self.vec.reserve(amt);

        unsafe {
            ptr::copy(
                self.vec.as_ptr().add(idx),
                self.vec.as_mut_ptr().add(idx + amt),
                len - idx,
            );
            ptr::copy_nonoverlapping(bytes.as_ptr(), self.vec.as_mut_ptr().add(idx), amt);
            self.vec.set_len(len + amt);
        }
    }

    /// See [`String::insert_str`].
    ///
    /// ```
    /// # use java_string::JavaString;
    /// let mut s = JavaString::from("bar");
    /// s.insert_str(0, "foo");
    /// assert_eq!(s, "foobar");
    /// ```
    #[inline]
    pub fn insert_str(&mut self, idx: usize, string: &str) {
        assert!(self.is_char_boundary(idx));

        unsafe {
            self.insert_bytes(idx, string.as_bytes());
        }
    }

    /// See [`String::insert_str`].
    pub fn insert_java_str(&mut self, idx: usize, string: &JavaStr) {
        assert!(self.is_char_boundary(idx));

        unsafe {
            self.insert_bytes(idx, string.as_bytes());
        }
    }

    /// See [`String::as_mut_vec`].
    ///
    /// # Safety
    ///
    /// The returned `Vec` must not have invalid UTF-8 written to it, besides
    /// surrogate pairs.
    #[inline]
    pub unsafe fn as_mut_vec(&mut self) -> &mut Vec<u8> {
        &mut self.vec
    }

    /// See [`String::len`].
    #[inline]
    #[must_use]
    pub fn len(&self) -> usize {
        self.vec.len()
    }

    /// See [`String::is_empty`].
    #[inline]
    #[must_use]
    pub fn is_empty(&self) -> bool {
        self.len() == 0
    }

    /// See [`String::split_off`].
    ///
    /// ```
    /// # use java_string::JavaString;
    /// let mut hello = JavaString::from("Hello World!");
    /// let world = hello.split_off(6);
    /// assert_eq!(hello, "Hello ");
    /// assert_eq!(world, "World!");
    /// ```
    /// ```should_panic
    /// # use java_string::JavaString;
    /// let mut s = JavaString::from("🦀");
    /// // Should panic
    /// let _ = s.split_off(1);
    /// ```
    #[inline]
    #[must_use]
    pub fn split_off(&mut self, at: usize) -> JavaString {
        assert!(self.is_char_boundary(at));
        let other = self.vec.split_off(at);
        unsafe { JavaString::from_semi_utf8_unchecked(other) }
    }

    /// See [`String::clear`].
    #[inline]
    pub fn clear(&mut self) {
        self.vec.clear();
    }

    /// See [`String::drain`].
    ///
    /// ```
    /// # use java_string::JavaString;
    ///
    /// let mut s = JavaString::from("α is alpha, β is beta");
    /// let beta_offset = s.find('β').unwrap_or(s.len());
    ///
    /// // Remove the range up until the β from the string
    /// let t: JavaString = s.drain(..beta_offset).collect();
    /// assert_eq!(t, "α is alpha, ");
    /// assert_eq!(s, "β is beta");
    ///
    /// // A full range clears the string, like `clear()` does
    /// s.drain(..);
    /// assert_eq!(s, "");
    /// ```
    #[inline]
    pub fn drain<R>(&mut self, range: R) -> Drain<'_>
    where
        R: RangeBounds<usize>,
    {
        // Memory safety: see String::drain
        let Range { start, end } = to_range_checked(range, ..self.len());
        assert!(self.is_char_boundary(start));
        assert!(self.is_char_boundary(end));

        // Take out two simultaneous borrows. The &mut String won't be accessed
        // until iteration is over, in Drop.
        let self_ptr = self as *mut _;
        // SAFETY: `to_range_checked` and `is_char_boundary` do the appropriate bounds
        // checks.
        let chars_iter = unsafe { self.get_unchecked(start..end) }.chars();

        Drain {
            start,
            end,
            iter: chars_iter,
            string: self_ptr,
        }
    }

    /// See [`String::replace_range`].
    ///
    /// ```
    /// # use java_string::JavaString;
    ///
    /// let mut s = JavaString::from("α is alpha, β is beta");
    /// let beta_offset = s.find('β').unwrap_or(s.len());
    ///
    /// // Replace the range up until the β from the string
    /// s.replace_range(..beta_offset, "Α is capital alpha; ");
    /// assert_eq!(s, "Α is capital alpha; β is beta");
    /// ```
    /// ```should_panic
    /// # use java_string::JavaString;
    /// let mut s = JavaString::from("α is alpha, β is beta");
    /// // Should panic
    /// s.replace_range(..1, "Α is capital alpha; ");
    /// ```
    pub fn replace_range<R>(&mut self, range: R, replace_with: &str)
    where
        R: RangeBounds<usize>,
    {
        self.replace_range_java(range, JavaStr::from_str(replace_with))
    }

    /// See [`String::replace_range`].
    pub fn replace_range_java<R>(&mut self, range: R, replace_with: &JavaStr)
    where
        R: RangeBounds<usize>,
    {
        let start = range.start_bound();
        match start {
            Bound::Included(&n) => assert!(self.is_char_boundary(n)),
            Bound::Excluded(&n) => assert!(self.is_char_boundary(n + 1)),
            Bound::Unbounded => {}
        };
        let end = range.end_bound();
        match end {
            Bound::Included(&n) => assert!(self.is_char_boundary(n + 1)),
            Bound::Excluded(&n) => assert!(self.is_char_boundary(n)),
            Bound::Unbounded => {}
        };

        unsafe { self.as_mut_vec() }.splice((start, end), replace_with.bytes());
    }

    /// See [`String::into_boxed_str`].
    #[inline]
    #[must_use]
    pub fn into_boxed_str(self) -> Box<JavaStr> {
        let slice = self.vec.into_boxed_slice();
        unsafe { JavaStr::from_boxed_semi_utf8_unchecked(slice) }
    }

    /// See [`String::leak`].
    #[inline]
    pub fn leak<'a>(self) -> &'a mut JavaStr {
        let slice = self.vec.leak();
        unsafe { JavaStr::from_semi_utf8_unchecked_mut(slice) }
    }
}

impl Add<&str> for JavaString {
    type Output = JavaString;

    #[inline]
    fn add(mut self, rhs: &str) -> Self::Output {
        self.push_str(rhs);
        self
    }
}

impl Add<&JavaStr> for JavaString {
    type Output = JavaString;

    #[inline]
    fn add(mut self, rhs: &JavaStr) -> Self::Output {
        self.push_java_str(rhs);
        self
    }
}

impl AddAssign<&str> for JavaString {
    #[inline]
    fn add_assign(&mut self, rhs: &str) {
        self.push_str(rhs);
    }
}

impl AddAssign<&JavaStr> for JavaString {
    #[inline]
    fn add_assign(&mut self, rhs: &JavaStr) {
        self.push_java_str(rhs);
    }
}

impl AsMut<JavaStr> for JavaString {
    #[inline]
    fn as_mut(&mut self) -> &mut JavaStr {
        self.as_mut_java_str()
    }
}

impl AsRef<[u8]> for JavaString {
    #[inline]
    fn as_ref(&self) -> &[u8] {
        self.as_bytes()
    }
}

impl AsRef<JavaStr> for JavaString {
    #[inline]
    fn as_ref(&self) -> &JavaStr {
        self.as_java_str()
    }
}

impl Borrow<JavaStr> for JavaString {
    #[inline]
    fn borrow(&self) -> &JavaStr {
        self.as_java_str()
    }
}

impl BorrowMut<JavaStr> for JavaString {
    #[inline]
    fn borrow_mut(&mut self) -> &mut JavaStr {
        self.as_mut_java_str()
    }
}

impl Clone for JavaString {
    #[inline]
    fn clone(&self) -> Self {
        JavaString {
            vec: self.vec.clone(),
        }
    }

    #[inline]
    fn clone_from(&mut self, source: &Self) {
        self.vec.clone_from(&source.vec)
    }
}

impl Debug for JavaString {
    fn fmt(&self, f: &mut Formatter<'_>) -> std::fmt::Result {
        Debug::fmt(&**self, f)
    }
}

impl Deref for JavaString {
    type Target = JavaStr;

    #[inline]
    fn deref(&self) -> &Self::Target {
        self.as_java_str()
    }
}

impl DerefMut for JavaString {
    #[inline]
    fn deref_mut(&mut self) -> &mut Self::Target {
        self.as_mut_java_str()
    }
}

impl Display for JavaString {
    fn fmt(&self, f: &mut Formatter<'_>) -> std::fmt::Result {
        Display::fmt(&**self, f)
    }
}

impl Extend<char> for JavaString {
    fn extend<T: IntoIterator<Item = char>>(&mut self, iter: T) {
        let iterator = iter.into_iter();
        let (lower_bound, _) = iterator.size_hint();
        self.reserve(lower_bound);
        iterator.for_each(move |c| self.push(c));
    }
}

impl Extend<JavaCodePoint> for JavaString {
    fn extend<T: IntoIterator<Item = JavaCodePoint>>(&mut self, iter: T) {
        let iterator = iter.into_iter();
        let (lower_bound, _) = iterator.size_hint();
        self.reserve(lower_bound);
        iterator.for_each(move |c| self.push_java(c));
    }
}

impl Extend<String> for JavaString {
    fn extend<T: IntoIterator<Item = String>>(&mut self, iter: T) {
        iter.into_iter().for_each(move |s| self.push_str(&s));
    }
}

impl Extend<JavaString> for JavaString {
    fn extend<T: IntoIterator<Item = JavaString>>(&mut self, iter: T) {
        iter.into_iter().for_each(move |s| self.push_java_str(&s));
    }
}

impl<'a> Extend<&'a char> for JavaString {
    fn extend<T: IntoIterator<Item = &'a char>>(&mut self, iter: T) {
        self.extend(iter.into_iter().cloned())
    }
}

impl<'a> Extend<&'a JavaCodePoint> for JavaString {
    fn extend<T: IntoIterator<Item = &'a JavaCodePoint>>(&mut self, iter: T) {
        self.extend(iter.into_iter().cloned())
    }
}

impl<'a> Extend<&'a str> for JavaString {
    fn extend<T: IntoIterator<Item = &'a str>>(&mut self, iter: T) {
        iter.into_iter().for_each(move |s| self.push_str(s));
    }
}

impl<'a> Extend<&'a JavaStr> for JavaString {
    fn extend<T: IntoIterator<Item = &'a JavaStr>>(&mut self, iter: T) {
        iter.into_iter().for_each(move |s| self.push_java_str(s));
    }
}

impl Extend<Box<str>> for JavaString {
    fn extend<T: IntoIterator<Item = Box<str>>>(&mut self, iter: T) {
        iter.into_iter().for_each(move |s| self.push_str(&s));
    }
}

impl Extend<Box<JavaStr>> for JavaString {
    fn extend<T: IntoIterator<Item = Box<JavaStr>>>(&mut self, iter: T) {
        iter.into_iter().for_each(move |s| self.push_java_str(&s));
    }
}

impl<'a> Extend<Cow<'a, str>> for JavaString {
    fn extend<T: IntoIterator<Item = Cow<'a, str>>>(&mut self, iter: T) {
        iter.into_iter().for_each(move |s| self.push_str(&s));
    }
}

impl<'a> Extend<Cow<'a, JavaStr>> for JavaString {
    fn extend<T: IntoIterator<Item = Cow<'a, JavaStr>>>(&mut self, iter: T) {
        iter.into_iter().for_each(move |s| self.push_java_str(&s));
    }
}

impl From<String> for JavaString {
    #[inline]
    fn from(value: String) -> Self {
        unsafe {
            // SAFETY: value is valid UTF-8
            JavaString::from_semi_utf8_unchecked(value.into_bytes())
        }
    }
}

impl From<&String> for JavaString {
    #[inline]
    fn from(value: &String) -> Self {
        Self::from(value.clone())
    }
}

impl From<&JavaString> for JavaString {
    #[inline]
    fn from(value: &JavaString) -> Self {
        value.clone()
    }
}

impl From<&mut str> for JavaString {
    #[inline]
    fn from(value: &mut str) -> Self {
        Self::from(&*value)
    }
}

impl From<&str> for JavaString {
    #[inline]
    fn from(value: &str) -> Self {
        Self::from(value.to_owned())
    }
}

impl From<&mut JavaStr> for JavaString {
    #[inline]
    fn from(value: &mut JavaStr) -> Self {
        Self::from(&*value)
    }
}

impl From<&JavaStr> for JavaString {
    #[inline]
    fn from(value: &JavaStr) -> Self {
        value.to_owned()
    }
}

impl From<Box<str>> for JavaString {
    #[inline]
    fn from(value: Box<str>) -> Self {
        Self::from(value.into_string())
    }
}

impl From<Box<JavaStr>> for JavaString {
    #[inline]
    fn from(value: Box<JavaStr>) -> Self {
        value.into_string()
    }
}

impl<'a> From<Cow<'a, str>> for JavaString {
    #[inline]
    fn from(value: Cow<'a, str>) -> Self {
        Self::from(value.into_owned())
    }
}

impl<'a> From<Cow<'a, JavaStr>> for JavaString {
    #[inline]
    fn from(value: Cow<'a, JavaStr>) -> Self {
        value.into_owned()
    }
}

impl From<JavaString> for Arc<JavaStr> {
    #[inline]
    fn from(value: JavaString) -> Self {
        Arc::from(&value[..])
    }
}

impl<'a> From<JavaString> for Cow<'a, JavaStr> {
    #[inline]
    fn from(value: JavaString) -> Self {
        Cow::Owned(value)
    }
}

impl From<JavaString> for Rc<JavaStr> {
    #[inline]
    fn from(value: JavaString) -> Self {
        Rc::from(&value[..])
    }
}

impl From<JavaString> for Vec<u8> {
    #[inline]
    fn from(value: JavaString) -> Self {
        value.into_bytes()
    }
}

impl From<char> for JavaString {
    #[inline]
    fn from(value: char) -> Self {
        Self::from(value.encode_utf8(&mut [0; 4]))
    }
}

impl From<JavaCodePoint> for JavaString {
    #[inline]
    fn from(value: JavaCodePoint) -> Self {
        unsafe {
            // SAFETY: we're encoding into semi-valid UTF-8
            JavaString::from_semi_utf8_unchecked(value.encode_semi_utf8(&mut [0; 4]).to_vec())
        }
    }
}

impl FromIterator<char> for JavaString {
    #[inline]
    fn from_iter<T: IntoIterator<Item = char>>(iter: T) -> Self {
        let mut buf = JavaString::new();
        buf.extend(iter);
        buf
    }
}

impl<'a> FromIterator<&'a char> for JavaString {
    #[inline]
    fn from_iter<T: IntoIterator<Item = &'a char>>(iter: T) -> Self {
        let mut buf = JavaString::new();
        buf.extend(iter);
        buf
    }
}

impl FromIterator<JavaCodePoint> for JavaString {
    #[inline]
    fn from_iter<T: IntoIterator<Item = JavaCodePoint>>(iter: T) -> Self {
        let mut buf = JavaString::new();
        buf.extend(iter);
        buf
    }
}

impl<'a> FromIterator<&'a JavaCodePoint> for JavaString {
    #[inline]
    fn from_iter<T: IntoIterator<Item = &'a JavaCodePoint>>(iter: T) -> Self {
        let mut buf = JavaString::new();
        buf.extend(iter);
        buf
    }
}

impl<'a> FromIterator<&'a str> for JavaString {
    #[inline]
    fn from_iter<T: IntoIterator<Item = &'a str>>(iter: T) -> Self {
        let mut buf = JavaString::new();
        buf.extend(iter);
        buf
    }
}

impl FromIterator<String> for JavaString {
    fn from_iter<T: IntoIterator<Item = String>>(iter: T) -> Self {
        let mut iterator = iter.into_iter();

        match iterator.next() {
            None => JavaString::new(),
            Some(buf) => {
                let mut buf = JavaString::from(buf);
                buf.extend(iterator);
                buf
            }
        }
    }
}

impl FromIterator<JavaString> for JavaString {
    fn from_iter<T: IntoIterator<Item = JavaString>>(iter: T) -> Self {
        let mut iterator = iter.into_iter();

        match iterator.next() {
            None => JavaString::new(),
            Some(mut buf) => {
                buf.extend(iterator);
                buf
            }
        }
    }
}

impl FromIterator<Box<str>> for JavaString {
    #[inline]
    fn from_iter<T: IntoIterator<Item = Box<str>>>(iter: T) -> Self {
        let mut buf = JavaString::new();
        buf.extend(iter);
        buf
    }
}

impl FromIterator<Box<JavaStr>> for JavaString {
    #[inline]
    fn from_iter<T: IntoIterator<Item = Box<JavaStr>>>(iter: T) -> Self {
        let mut buf = JavaString::new();
        buf.extend(iter);
        buf
    }
}

impl<'a> FromIterator<Cow<'a, str>> for JavaString {
    #[inline]
    fn from_iter<T: IntoIterator<Item = Cow<'a, str>>>(iter: T) -> Self {
        let mut buf = JavaString::new();
        buf.extend(iter);
        buf
    }
}

impl<'a> FromIterator<Cow<'a, JavaStr>> for JavaString {
    #[inline]
    fn from_iter<T: IntoIterator<Item = Cow<'a, JavaStr>>>(iter: T) -> Self {
        let mut buf = JavaString::new();
        buf.extend(iter);
        buf
    }
}

impl FromStr for JavaString {
    type Err = Infallible;

    #[inline]
    fn from_str(s: &str) -> Result<Self, Self::Err> {
        Ok(Self::from(s))
    }
}

impl Hash for JavaString {
    #[inline]
    fn hash<H: Hasher>(&self, state: &mut H) {
        (**self).hash(state)
    }
}

impl Index<Range<usize>> for JavaString {
    type Output = JavaStr;

    #[inline]
    fn index(&self, index: Range<usize>) -> &Self::Output {
        &self[..][index]
    }
}

impl Index<RangeFrom<usize>> for JavaString {
    type Output = JavaStr;

    #[inline]
    fn index(&self, index: RangeFrom<usize>) -> &Self::Output {
        &self[..][index]
    }
}

impl Index<RangeFull> for JavaString {
    type Output = JavaStr;

    #[inline]
    fn index(&self, _index: RangeFull) -> &Self::Output {
        self.as_java_str()
    }
}

impl Index<RangeInclusive<usize>> for JavaString {
    type Output = JavaStr;

    #[inline]
    fn index(&self, index: RangeInclusive<usize>) -> &Self::Output {
        &self[..][index]
    }
}

impl Index<RangeTo<usize>> for JavaString {
    type Output = JavaStr;

    #[inline]
    fn index(&self, index: RangeTo<usize>) -> &Self::Output {
        &self[..][index]
    }
}

impl Index<RangeToInclusive<usize>> for JavaString {
    type Output = JavaStr;

    #[inline]
    fn index(&self, index: RangeToInclusive<usize>) -> &Self::Output {
        &self[..][index]
    }
}

impl IndexMut<Range<usize>> for JavaString {
    #[inline]
    fn index_mut(&mut self, index: Range<usize>) -> &mut Self::Output {
        &mut self[..][index]
    }
}

impl IndexMut<RangeFrom<usize>> for JavaString {
    #[inline]
    fn index_mut(&mut self, index: RangeFrom<usize>) -> &mut Self::Output {
        &mut self[..][index]
    }
}

impl IndexMut<RangeFull> for JavaString {
    #[inline]
    fn index_mut(&mut self, _index: RangeFull) -> &mut Self::Output {
        self.as_mut_java_str()
    }
}

impl IndexMut<RangeInclusive<usize>> for JavaString {
    #[inline]
    fn index_mut(&mut self, index: RangeInclusive<usize>) -> &mut Self::Output {
        &mut self[..][index]
    }
}

impl IndexMut<RangeTo<usize>> for JavaString {
    #[inline]
    fn index_mut(&mut self, index: RangeTo<usize>) -> &mut Self::Output {
        &mut self[..][index]
    }
}

impl IndexMut<RangeToInclusive<usize>> for JavaString {
    #[inline]
    fn index_mut(&mut self, index: RangeToInclusive<usize>) -> &mut Self::Output {
        &mut self[..][index]
    }
}

impl PartialEq<str> for JavaString {
    #[inline]
    fn eq(&self, other: &str) -> bool {
        self[..] == other
    }
}

impl PartialEq<JavaString> for str {
    #[inline]
    fn eq(&self, other: &JavaString) -> bool {
        self == other[..]
    }
}

impl<'a> PartialEq<&'a str> for JavaString {
    #[inline]
    fn eq(&self, other: &&'a str) -> bool {
        self == *other
    }
}

impl<'a> PartialEq<JavaString> for &'a str {
    #[inline]
    fn eq(&self, other: &JavaString) -> bool {
        *self == other
    }
}

impl PartialEq<String> for JavaString {
    #[inline]
    fn eq(&self, other: &String) -> bool {
        &self[..] == other
    }
}

impl PartialEq<JavaString> for String {
    #[inline]
    fn eq(&self, other: &JavaString) -> bool {
        self == &other[..]
    }
}

impl PartialEq<JavaStr> for JavaString {
    #[inline]
    fn eq(&self, other: &JavaStr) -> bool {
        self[..] == other
    }
}

impl<'a> PartialEq<&'a JavaStr> for JavaString {
    #[inline]
    fn eq(&self, other: &&'a JavaStr) -> bool {
        self == *other
    }
}

impl<'a> PartialEq<Cow<'a, str>> for JavaString {
    #[inline]
    fn eq(&self, other: &Cow<'a, str>) -> bool {
        &self[..] == other
    }
}

impl<'a> PartialEq<JavaString> for Cow<'a, str> {
    #[inline]
    fn eq(&self, other: &JavaString) -> bool {
        self == &other[..]
    }
}

impl<'a> PartialEq<Cow<'a, JavaStr>> for JavaString {
    #[inline]
    fn eq(&self, other: &Cow<'a, JavaStr>) -> bool {
        &self[..] == other
    }
}

impl<'a> PartialEq<JavaString> for Cow<'a, JavaStr> {
    #[inline]
    fn eq(&self, other: &JavaString) -> bool {
        self == &other[..]
    }
}

impl Write for JavaString {
    #[inline]
    fn write_str(&mut self, s: &str) -> std::fmt::Result {
        self.push_str(s);
        Ok(())
    }

    #[inline]
    fn write_char(&mut self, c: char) -> std::fmt::Result {
        self.push(c);
        Ok(())
    }
}

pub struct Drain<'a> {
    string: *mut JavaString,
    start: usize,
    end: usize,
    iter: Chars<'a>,
}

impl Debug for Drain<'_> {
    fn fmt(&self, f: &mut Formatter<'_>) -> std::fmt::Result {
        f.debug_tuple("Drain").field(&self.as_str()).finish()
    }
}

unsafe impl Sync for Drain<'_> {}
unsafe impl Send for Drain<'_> {}

impl Drop for Drain<'_> {
    #[inline]
    fn drop(&mut self) {
        unsafe {
            // Use Vec::drain. "Reaffirm" the bounds checks to avoid
            // panic code being inserted again.
            let self_vec = (*self.string).as_mut_vec();
            if self.start <= self.end && self.end <= self_vec.len() {
                self_vec.drain(self.start..self.end);
            }
        }
    }
}

impl AsRef<JavaStr> for Drain<'_> {
    #[inline]
    fn as_ref(&self) -> &JavaStr {
        self.as_str()
    }
}

impl AsRef<[u8]> for Drain<'_> {
    #[inline]
    fn as_ref(&self) -> &[u8] {
        self.as_str().as_bytes()
    }
}

impl Drain<'_> {
    #[inline]
    #[must_use]
    pub fn as_str(&self) -> &JavaStr {
        self.iter.as_str()
    }
}

impl Iterator for Drain<'_> {
    type Item = JavaCodePoint;

    #[inline]
    fn next(&mut self) -> Option<JavaCodePoint> {
        self.iter.next()
    }

    #[inline]
    fn size_hint(&self) -> (usize, Option<usize>) {
        self.iter.size_hint()
    }

    #[inline]
    fn last(mut self) -> Option<JavaCodePoint> {
        self.next_back()
    }
}

impl DoubleEndedIterator for Drain<'_> {
    #[inline]
    fn next_back(&mut self) -> Option<Self::Item> {
        self.iter.next_back()
    }
}

impl FusedIterator for Drain<'_> {}
