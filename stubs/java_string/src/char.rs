use std::char::ParseCharError;
use std::cmp::Ordering;
use std::fmt;
use std::fmt::{Debug, Display, Formatter, Write};
use std::hash::{Hash, Hasher};
use std::iter::{once, FusedIterator, Once};
use std::ops::Range;
use std::str::FromStr;

use crate::validations::{TAG_CONT, TAG_FOUR_B, TAG_THREE_B, TAG_TWO_B};

// JavaCodePoint is guaranteed to have the same repr as a u32, with valid values
// of between 0 and 0x10FFFF, the same as a unicode code point. Surrogate code
// points are valid values of this type.
#[derive(Copy, Clone, PartialEq, Eq)]
#[repr(C)]
pub struct JavaCodePoint {
    #[cfg(target_endian = "little")]
    lower: u16,
    upper: SeventeenValues,
    #[cfg(target_endian = "big")]
    lower: u16,
}

#[repr(u16)]
#[derive(Copy, Clone, PartialEq, Eq)]
#[allow(unused)]
enum SeventeenValues {
    V0,
    V1,
    V2,
    V3,
    V4,
    V5,
    V6,
    V7,
    V8,
    V9,
    V10,
    V11,
    V12,
    V13,
    V14,
    V15,
    V16,
}

impl JavaCodePoint {
    pub const MAX: JavaCodePoint = JavaCodePoint::from_char(char::MAX);
    pub const REPLACEMENT_CHARACTER: JavaCodePoint =
        JavaCodePoint::from_char(char::REPLACEMENT_CHARACTER);

    /// See [`char::from_u32`]
    ///
    /// ```
    /// # use java_string::JavaCodePoint;
    /// let c = JavaCodePoint::from_u32(0x2764);
    /// assert_eq!(Some(JavaCodePoint::from_char('❤')), c);
    ///
    /// assert_eq!(None, JavaCodePoint::from_u32(0x110000));
    /// ```
    #[inline]
    #[must_use]
    pub const fn from_u32(i: u32) -> Option<JavaCodePoint> {
        if i <= 0x10ffff {
            unsafe { Some(Self::from_u32_unchecked(i)) }
        } else {
            None
        }
    }

    /// # Safety
    /// The argument must be within the valid Unicode code point range of 0 to
    /// 0x10FFFF inclusive. Surrogate code points are allowed.
    #[inline]
    #[must_use]
    pub const unsafe fn from_u32_unchecked(i: u32) -> JavaCodePoint {
        // SAFETY: the caller checks that the argument can be represented by this type
        std::mem::transmute(i)
    }

    /// Converts a `char` to a code point.
    #[inline]
    #[must_use]
    pub const fn from_char(char: char) -> JavaCodePoint {
        unsafe {
            // SAFETY: all chars are valid code points
            JavaCodePoint::from_u32_unchecked(char as u32)
        }
    }

    /// Converts this code point to a `u32`.
    ///
    /// ```
    /// # use java_string::JavaCodePoint;
    /// assert_eq!(65, JavaCodePoint::from_char('A').as_u32());
    /// assert_eq!(0xd800, JavaCodePoint::from_u32(0xd800).unwrap().as_u32());
    /// ```
    #[inline]
    #[must_use]
    pub const fn as_u32(self) -> u32 {
        unsafe {
            // SAFETY: JavaCodePoint has the same repr as a u32
            let result = std::mem::transmute(self);

            if result > 0x10ffff {
                // SAFETY: JavaCodePoint can never have a value > 0x10FFFF.
                // This statement may allow the optimizer to remove branches in the calling code
                // associated with out of bounds chars.
                std::hint::unreachable_unchecked();
            }

            result
        }
    }

    /// Converts this code point to a `char`.
    ///
    /// ```
    /// # use java_string::JavaCodePoint;
    /// assert_eq!(Some('a'), JavaCodePoint::from_char('a').as_char());
    /// assert_eq!(None, JavaCodePoint::from_u32(0xd800).unwrap().as_char());
    /// ```
    #[inline]
    #[must_use]
    pub const fn as_char(self) -> Option<char> {
        char::from_u32(self.as_u32())
    }

    /// # Safety
    /// The caller must ensure that this code point is not a surrogate code
    /// point.
    #[inline]
    #[must_use]
    pub unsafe fn as_char_unchecked(self) -> char {
        char::from_u32_unchecked(self.as_u32())
    }

    /// See [`char::encode_utf16`]
    ///
    /// ```
    /// # use java_string::JavaCodePoint;
    /// assert_eq!(
    ///     2,
    ///     JavaCodePoint::from_char('𝕊')
    ///         .encode_utf16(&mut [0; 2])
    ///         .len()
    /// );
    /// assert_eq!(
    ///     1,
    ///     JavaCodePoint::from_u32(0xd800)
    ///         .unwrap()
    ///         .encode_utf16(&mut [0; 2])
    ///         .len()
    /// );
    /// ```
    /// ```should_panic
    /// # use java_string::JavaCodePoint;
    /// // Should panic
    /// JavaCodePoint::from_char('𝕊').encode_utf16(&mut [0; 1]);
    /// ```
    #[inline]
    pub fn encode_utf16(self, dst: &mut [u16]) -> &mut [u16] {
        if let Some(char) = self.as_char() {
            char.encode_utf16(dst)
        } else {
            dst[0] = self.as_u32() as u16;
            &mut dst[..1]
        }
    }

    /// Encodes this `JavaCodePoint` into semi UTF-8, that is, UTF-8 with
    /// surrogate code points. See also [char::encode_utf8].
    ///
    /// ```
    /// # use java_string::JavaCodePoint;
    /// assert_eq!(
    ///     2,
    ///     JavaCodePoint::from_char('ß')
    ///         .encode_semi_utf8(&mut [0; 4])
    ///         .len()
    /// );
    /// assert_eq!(
    ///     3,
    ///     JavaCodePoint::from_u32(0xd800)
    ///         .unwrap()
    ///         .encode_semi_utf8(&mut [0; 4])
    ///         .len()
    /// );
    /// ```
    /// ```should_panic
    /// # use java_string::JavaCodePoint;
    /// // Should panic
    /// JavaCodePoint::from_char('ß').encode_semi_utf8(&mut [0; 1]);
    /// ```
    #[inline]
    pub fn encode_semi_utf8(self, dst: &mut [u8]) -> &mut [u8] {
        let len = self.len_utf8();
        let code = self.as_u32();
        match (len, &mut dst[..]) {
            (1, [a, ..]) => {
                *a = code as u8;
            }
            (2, [a, b, ..]) => {
                *a = (code >> 6 & 0x1f) as u8 | TAG_TWO_B;
                *b = (code & 0x3f) as u8 | TAG_CONT;
            }
            (3, [a, b, c, ..]) => {
                *a = (code >> 12 & 0x0f) as u8 | TAG_THREE_B;
                *b = (code >> 6 & 0x3f) as u8 | TAG_CONT;
                *c = (code & 0x3f) as u8 | TAG_CONT;
            }
            (4, [a, b, c, d, ..]) => {
                *a = (code >> 18 & 0x07) as u8 | TAG_FOUR_B;
                *b = (code >> 12 & 0x3f) as u8 | TAG_CONT;
                *c = (code >> 6 & 0x3f) as u8 | TAG_CONT;
                *d = (code & 0x3f) as u8 | TAG_CONT;
            }
            _ => panic!(
                "encode_utf8: need {} bytes to encode U+{:X}, but the buffer has {}",
                len,
                code,
                dst.len()
            ),
        }
        &mut dst[..len]
    }

    /// See [`char::eq_ignore_ascii_case`].
    #[inline]
    pub fn eq_ignore_ascii_case(&self, other: &JavaCodePoint) -> bool {
        match (self.as_char(), other.as_char()) {
            (Some(char1), Some(char2)) => char1.eq_ignore_ascii_case(&char2),
            (None, None) => self == other,
            _ => false,
        }
    }

    /// See [`char::escape_debug`].
    ///
    /// ```
    /// # use java_string::JavaCodePoint;
    /// assert_eq!(
    ///     "a",
    ///     JavaCodePoint::from_char('a').escape_debug().to_string()
    /// );
    /// assert_eq!(
    ///     "\\n",
    ///     JavaCodePoint::from_char('\n').escape_debug().to_string()
    /// );
    /// assert_eq!(
    ///     "\\u{d800}",
    ///     JavaCodePoint::from_u32(0xd800)
    ///         .unwrap()
    ///         .escape_debug()
    ///         .to_string()
    /// );
    /// ```
    #[inline]
    #[must_use]
    pub fn escape_debug(self) -> CharEscapeIter {
        self.escape_debug_ext(EscapeDebugExtArgs::ESCAPE_ALL)
    }

    #[inline]
    #[must_use]
    pub(crate) fn escape_debug_ext(self, args: EscapeDebugExtArgs) -> CharEscapeIter {
        const NULL: u32 = '\0' as u32;
        const TAB: u32 = '\t' as u32;
        const CARRIAGE_RETURN: u32 = '\r' as u32;
        const LINE_FEED: u32 = '\n' as u32;
        const SINGLE_QUOTE: u32 = '\'' as u32;
        const DOUBLE_QUOTE: u32 = '"' as u32;
        const BACKSLASH: u32 = '\\' as u32;

        unsafe {
            // SAFETY: all characters specified are in ascii range
            match self.as_u32() {
                NULL => CharEscapeIter::new([b'\\', b'0']),
                TAB => CharEscapeIter::new([b'\\', b't']),
                CARRIAGE_RETURN => CharEscapeIter::new([b'\\', b'r']),
                LINE_FEED => CharEscapeIter::new([b'\\', b'n']),
                SINGLE_QUOTE if args.escape_single_quote => CharEscapeIter::new([b'\\', b'\'']),
                DOUBLE_QUOTE if args.escape_double_quote => CharEscapeIter::new([b'\\', b'"']),
                BACKSLASH => CharEscapeIter::new([b'\\', b'\\']),
                _ if self.is_printable() => {
                    // SAFETY: surrogate code points are not printable
                    CharEscapeIter::printable(self.as_char_unchecked())
                }
                _ => self.escape_unicode(),
            }
        }
    }

    #[inline]
    fn is_printable(self) -> bool {
        let Some(char) = self.as_char() else {
            return false;
        };
        if matches!(char, '\\' | '\'' | '"') {
            return true;
        }
        char.escape_debug().next() != Some('\\')
    }

    /// See [`char::escape_default`].
    ///
    /// ```
    /// # use java_string::JavaCodePoint;
    /// assert_eq!(
    ///     "a",
    ///     JavaCodePoint::from_char('a').escape_default().to_string()
    /// );
    /// assert_eq!(
    ///     "\\n",
    ///     JavaCodePoint::from_char('\n').escape_default().to_string()
    /// );
    /// assert_eq!(
    ///     "\\u{d800}",
    ///     JavaCodePoint::from_u32(0xd800)
    ///         .unwrap()
    ///         .escape_default()
    ///         .to_string()
    /// );
    /// ```
    #[inline]
    #[must_use]
    pub fn escape_default(self) -> CharEscapeIter {
        const TAB: u32 = '\t' as u32;
        const CARRIAGE_RETURN: u32 = '\r' as u32;
        const LINE_FEED: u32 = '\n' as u32;
        const SINGLE_QUOTE: u32 = '\'' as u32;
        const DOUBLE_QUOTE: u32 = '"' as u32;
        const BACKSLASH: u32 = '\\' as u32;

        unsafe {
            // SAFETY: all characters specified are in ascii range
            match self.as_u32() {
                TAB => CharEscapeIter::new([b'\\', b't']),
                CARRIAGE_RETURN => CharEscapeIter::new([b'\\', b'r']),
                LINE_FEED => CharEscapeIter::new([b'\\', b'n']),
                SINGLE_QUOTE => CharEscapeIter::new([b'\\', b'\'']),
                DOUBLE_QUOTE => CharEscapeIter::new([b'\\', b'"']),
                BACKSLASH => CharEscapeIter::new([b'\\', b'\\']),
                0x20..=0x7e => CharEscapeIter::new([self.as_u32() as u8]),
                _ => self.escape_unicode(),
            }
        }
    }

    /// See [`char::escape_unicode`].
    ///
    /// ```
    /// # use java_string::JavaCodePoint;
    /// assert_eq!(
    ///     "\\u{2764}",
    ///     JavaCodePoint::from_char('❤').escape_unicode().to_string()
    /// );
    /// assert_eq!(
    ///     "\\u{d800}",
    ///     JavaCodePoint::from_u32(0xd800)
    ///         .unwrap()
    ///         .escape_unicode()
    ///         .to_string()
    /// );
    /// ```
    #[inline]
    #[must_use]
    pub fn escape_unicode(self) -> CharEscapeIter {
        let x = self.as_u32();

        let mut arr = [0; 10];
        arr[0] = b'\\';
        arr[1] = b'u';
        arr[2] = b'{';

        let number_len = if x == 0 {
            1
        } else {
            ((x.ilog2() >> 2) + 1) as usize
        };
        arr[3 + number_len] = b'}';
        for hexit in 0..number_len {
            arr[2 + number_len - hexit] = b"0123456789abcdef"[((x >> (hexit << 2)) & 15) as usize];
        }

        CharEscapeIter {
            inner: EscapeIterInner::Escaped(EscapeIterEscaped {
                bytes: arr,
                range: 0..number_len + 4,
            }),
        }
    }

    /// See [`char::is_alphabetic`].
    #[inline]
    #[must_use]
    pub fn is_alphabetic(self) -> bool {
        self.as_char().is_some_and(|char| char.is_alphabetic())
    }

    /// See [`char::is_alphanumeric`].
    #[inline]
    #[must_use]
    pub fn is_alphanumeric(self) -> bool {
        self.as_char().is_some_and(|char| char.is_alphanumeric())
    }

    /// See [`char::is_ascii`].
    #[inline]
    #[must_use]
    pub fn is_ascii(self) -> bool {
        self.as_u32() <= 0x7f
    }

    /// See [`char::is_ascii_alphabetic`].
    #[inline]
    #[must_use]
    pub const fn is_ascii_alphabetic(self) -> bool {
        self.is_ascii_lowercase() || self.is_ascii_uppercase()
    }

    /// See [`char::is_ascii_alphanumeric`].
    #[inline]
    #[must_use]
    pub const fn is_ascii_alphanumeric(self) -> bool {
        self.is_ascii_alphabetic() || self.is_ascii_digit()
    }

    /// See [`char::is_ascii_control`].
    #[inline]
    #[must_use]
    pub const fn is_ascii_control(self) -> bool {
        matches!(self.as_u32(), 0..=0x1f | 0x7f)
    }

    /// See [`char::is_ascii_digit`].
    #[inline]
    #[must_use]
    pub const fn is_ascii_digit(self) -> bool {
        const ZERO: u32 = '0' as u32;
        const NINE: u32 = '9' as u32;
        matches!(self.as_u32(), ZERO..=NINE)
    }

    /// See [`char::is_ascii_graphic`].
    #[inline]
    #[must_use]
    pub const fn is_ascii_graphic(self) -> bool {
        matches!(self.as_u32(), 0x21..=0x7e)
    }

    /// See [`char::is_ascii_hexdigit`].
    #[inline]
    #[must_use]
    pub const fn is_ascii_hexdigit(self) -> bool {
        const LOWER_A: u32 = 'a' as u32;
        const LOWER_F: u32 = 'f' as u32;
        const UPPER_A: u32 = 'A' as u32;
        const UPPER_F: u32 = 'F' as u32;
        self.is_ascii_digit() || matches!(self.as_u32(), (LOWER_A..=LOWER_F) | (UPPER_A..=UPPER_F))
    }

    /// See [`char::is_ascii_lowercase`].
    #[inline]
    #[must_use]
    pub const fn is_ascii_lowercase(self) -> bool {
        const A: u32 = 'a' as u32;
        const Z: u32 = 'z' as u32;
        matches!(self.as_u32(), A..=Z)
    }

    /// See [`char::is_ascii_octdigit`].
    #[inline]
    #[must_use]
    pub const fn is_ascii_octdigit(self) -> bool {
        const ZERO: u32 = '0' as u32;
        const SEVEN: u32 = '7' as u32;
        matches!(self.as_u32(), ZERO..=SEVEN)
    }

    /// See [`char::is_ascii_punctuation`].
    #[inline]
    #[must_use]
    pub const fn is_ascii_punctuation(self) -> bool {
        matches!(
            self.as_u32(),
            (0x21..=0x2f) | (0x3a..=0x40) | (0x5b..=0x60) | (0x7b..=0x7e)
        )
    }

    /// See [`char::is_ascii_uppercase`].
    #[inline]
    #[must_use]
    pub const fn is_ascii_uppercase(self) -> bool {
        const A: u32 = 'A' as u32;
        const Z: u32 = 'Z' as u32;
        matches!(self.as_u32(), A..=Z)
    }

    /// See [`char::is_ascii_whitespace`].
    #[inline]
    #[must_use]
    pub const fn is_ascii_whitespace(self) -> bool {
        const SPACE: u32 = ' ' as u32;
        const HORIZONTAL_TAB: u32 = '\t' as u32;
        const LINE_FEED: u32 = '\n' as u32;
        const FORM_FEED: u32 = 0xc;
        const CARRIAGE_RETURN: u32 = '\r' as u32;
        matches!(
            self.as_u32(),
            SPACE | HORIZONTAL_TAB | LINE_FEED | FORM_FEED | CARRIAGE_RETURN
        )
    }

    /// See [`char::is_control`].
    #[inline]
    #[must_use]
    pub fn is_control(self) -> bool {
        self.as_char().is_some_and(|char| char.is_control())
    }

    /// See [`char::is_digit`].
    #[inline]
    #[must_use]
    pub fn is_digit(self, radix: u32) -> bool {
        self.to_digit(radix).is_some()
    }

    /// See [`char::is_lowercase`].
    #[inline]
    #[must_use]
    pub fn is_lowercase(self) -> bool {
        self.as_char().is_some_and(|char| char.is_lowercase())
    }

    /// See [`char::is_numeric`].
    #[inline]
    #[must_use]
    pub fn is_numeric(self) -> bool {
        self.as_char().is_some_and(|char| char.is_numeric())
    }

    /// See [`char::is_uppercase`].
    #[inline]
    #[must_use]
    pub fn is_uppercase(self) -> bool {
        self.as_char().is_some_and(|char| char.is_uppercase())
    }

    /// See [`char::is_whitespace`].
    #[inline]
    #[must_use]
    pub fn is_whitespace(self) -> bool {
        self.as_char().is_some_and(|char| char.is_whitespace())
    }

    /// See [`char::len_utf16`]. Surrogate code points return 1.
    ///
    /// ```
    /// # use java_string::JavaCodePoint;
    ///
    /// let n = JavaCodePoint::from_char('ß').len_utf16();
    /// assert_eq!(n, 1);
    ///
    /// let len = JavaCodePoint::from_char('💣').len_utf16();
    /// assert_eq!(len, 2);
    ///
    /// assert_eq!(1, JavaCodePoint::from_u32(0xd800).unwrap().len_utf16());
    /// ```
    #[inline]
    #[must_use]
    pub const fn len_utf16(self) -> usize {
        if let Some(char) = self.as_char() {
            char.len_utf16()
        } else {
            1 // invalid code points are encoded as 1 utf16 code point anyway
        }
    }

    /// See [`char::len_utf8`]. Surrogate code points return 3.
    ///
    /// ```
    /// # use java_string::JavaCodePoint;
    ///
    /// let len = JavaCodePoint::from_char('A').len_utf8();
    /// assert_eq!(len, 1);
    ///
    /// let len = JavaCodePoint::from_char('ß').len_utf8();
    /// assert_eq!(len, 2);
    ///
    /// let len = JavaCodePoint::from_char('ℝ').len_utf8();
    /// assert_eq!(len, 3);
    ///
    /// let len = JavaCodePoint::from_char('💣').len_utf8();
    /// assert_eq!(len, 4);
    ///
    /// let len = JavaCodePoint::from_u32(0xd800).unwrap().len_utf8();
    /// assert_eq!(len, 3);
    /// ```
    #[inline]
    #[must_use]
    pub const fn len_utf8(self) -> usize {
        if let Some(char) = self.as_char() {
            char.len_utf8()
        } else {
            3 // invalid code points are all length 3 in semi-valid utf8
        }
    }

    /// See [`char::make_ascii_lowercase`].
    #[inline]
    pub fn make_ascii_lowercase(&mut self) {
        *self = self.to_ascii_lowercase();
    }

    /// See [`char::make_ascii_uppercase`].
    #[inline]
    pub fn make_ascii_uppercase(&mut self) {
        *self = self.to_ascii_uppercase();
    }

    /// See [`char::to_ascii_lowercase`].
    ///
    /// ```
    /// # use java_string::JavaCodePoint;
    ///
    /// let ascii = JavaCodePoint::from_char('A');
    /// let non_ascii = JavaCodePoint::from_char('❤');
    ///
    /// assert_eq!('a', ascii.to_ascii_lowercase());
    /// assert_eq!('❤', non_ascii.to_ascii_lowercase());
    /// ```
    #[inline]
    #[must_use]
    pub const fn to_ascii_lowercase(self) -> JavaCodePoint {
        if self.is_ascii_uppercase() {
            unsafe {
                // SAFETY: all lowercase chars are valid chars
                Self::from_u32_unchecked(self.as_u32() + 32)
            }
        } else {
            self
        }
    }

    /// See [`char::to_ascii_uppercase`].
    ///
    /// ```
    /// # use java_string::JavaCodePoint;
    ///
    /// let ascii = JavaCodePoint::from_char('a');
    /// let non_ascii = JavaCodePoint::from_char('❤');
    ///
    /// assert_eq!('A', ascii.to_ascii_uppercase());
    /// assert_eq!('❤', non_ascii.to_ascii_uppercase());
    /// ```
    #[inline]
    #[must_use]
    pub const fn to_ascii_uppercase(self) -> JavaCodePoint {
        if self.is_ascii_lowercase() {
            unsafe {
                // SAFETY: all uppercase chars are valid chars
                Self::from_u32_unchecked(self.as_u32() - 32)
            }
        } else {
            self
        }
    }

    /// See [`char::to_digit`].
    #[inline]
    #[must_use]
    pub const fn to_digit(self, radix: u32) -> Option<u32> {
        if let Some(char) = self.as_char() {
            char.to_digit(radix)
        } else {
            None
        }
    }

    /// See [`char::to_lowercase`].
    #[inline]
    #[must_use]
    pub fn to_lowercase(self) -> ToLowercase {
        match self.as_char() {
            Some(char) => ToLowercase::char(char.to_lowercase()),
            None => ToLowercase::invalid(self),
        }
    }

    /// See [`char::to_uppercase`].
    #[inline]
    #[must_use]
    pub fn to_uppercase(self) -> ToUppercase {
        match self.as_char() {
            Some(char) => ToUppercase::char(char.to_uppercase()),
            None => ToUppercase::invalid(self),
        }
    }
}

impl Debug for JavaCodePoint {
    fn fmt(&self, f: &mut Formatter<'_>) -> fmt::Result {
        f.write_char('\'')?;
        for c in self.escape_debug_ext(EscapeDebugExtArgs {
            escape_single_quote: true,
            escape_double_quote: false,
        }) {
            f.write_char(c)?;
        }
        f.write_char('\'')
    }
}

impl Default for JavaCodePoint {
    #[inline]
    fn default() -> Self {
        JavaCodePoint::from_char('\0')
    }
}

impl Display for JavaCodePoint {
    #[inline]
    fn fmt(&self, f: &mut Formatter<'_>) -> fmt::Result {
        Display::fmt(&self.as_char().unwrap_or(char::REPLACEMENT_CHARACTER), f)
    }
}

impl From<JavaCodePoint> for u32 {
    #[inline]
    fn from(value: JavaCodePoint) -> Self {
        value.as_u32()
    }
}

impl From<u8> for JavaCodePoint {
    #[inline]
    fn from(value: u8) -> Self {
        JavaCodePoint::from_char(char::from(value))
    }
}

impl FromStr for JavaCodePoint {
    type Err = ParseCharError;

    #[inline]
    fn from_str(s: &str) -> Result<Self, Self::Err> {
        char::from_str(s).map(JavaCodePoint::from_char)
    }
}

impl Hash for JavaCodePoint {
    #[inline]
    fn hash<H: Hasher>(&self, state: &mut H) {
        self.as_u32().hash(state)
    }
}

impl Ord for JavaCodePoint {
    #[inline]
    fn cmp(&self, other: &Self) -> Ordering {
        self.as_u32().cmp(&other.as_u32())
    }
}

impl PartialOrd for JavaCodePoint {
    #[inline]
    fn partial_cmp(&self, other: &Self) -> Option<Ordering> {
        Some(self.cmp(other))
    }
}

impl PartialOrd<char> for JavaCodePoint {
    #[inline]
    fn partial_cmp(&self, other: &char) -> Option<Ordering> {
        self.partial_cmp(&JavaCodePoint::from_char(*other))
    }
}

impl PartialOrd<JavaCodePoint> for char {
    #[inline]
    fn partial_cmp(&self, other: &JavaCodePoint) -> Option<Ordering> {
        JavaCodePoint::from_char(*self).partial_cmp(other)
    }
}

impl PartialEq<char> for JavaCodePoint {
    #[inline]
    fn eq(&self, other: &char) -> bool {
        self == &JavaCodePoint::from_char(*other)
    }
}

impl PartialEq<JavaCodePoint> for char {
    #[inline]
    fn eq(&self, other: &JavaCodePoint) -> bool {
        &JavaCodePoint::from_char(*self) == other
    }
}

pub(crate) struct EscapeDebugExtArgs {
    pub(crate) escape_single_quote: bool,
    pub(crate) escape_double_quote: bool,
}

impl EscapeDebugExtArgs {
    pub(crate) const ESCAPE_ALL: Self = Self {
        escape_single_quote: true,
        escape_double_quote: true,
    };
}

#[derive(Clone, Debug)]
pub struct CharEscapeIter {
    inner: EscapeIterInner,
}

#[derive(Clone, Debug)]
enum EscapeIterInner {
    Printable(Once<char>),
    Escaped(EscapeIterEscaped),
}

impl Display for EscapeIterInner {
    fn fmt(&self, f: &mut Formatter<'_>) -> fmt::Result {
        match self {
            EscapeIterInner::Printable(char) => char.clone().try_for_each(|ch| f.write_char(ch)),
            EscapeIterInner::Escaped(escaped) => Display::fmt(escaped, f),
        }
    }
}

impl CharEscapeIter {
    #[inline]
    fn printable(char: char) -> Self {
        CharEscapeIter {
            inner: EscapeIterInner::Printable(once(char)),
        }
    }

    /// # Safety
    /// Assumes that the input byte array is ASCII
    #[inline]
    unsafe fn new<const N: usize>(bytes: [u8; N]) -> Self {
        assert!(N <= 10, "Too many bytes in escape iter");
        let mut ten_bytes = [0; 10];
        ten_bytes[..N].copy_from_slice(&bytes);
        CharEscapeIter {
            inner: EscapeIterInner::Escaped(EscapeIterEscaped {
                bytes: ten_bytes,
                range: 0..N,
            }),
        }
    }
}

impl Iterator for CharEscapeIter {
    type Item = char;

    #[inline]
    fn next(&mut self) -> Option<Self::Item> {
        match &mut self.inner {
            EscapeIterInner::Printable(printable) => printable.next(),
            EscapeIterInner::Escaped(escaped) => escaped.next(),
        }
    }

    #[inline]
    fn size_hint(&self) -> (usize, Option<usize>) {
        match &self.inner {
            EscapeIterInner::Printable(printable) => printable.size_hint(),
            EscapeIterInner::Escaped(escaped) => escaped.size_hint(),
        }
    }
}

impl ExactSizeIterator for CharEscapeIter {
    #[inline]
    fn len(&self) -> usize {
        match &self.inner {
            EscapeIterInner::Printable(printable) => printable.len(),
            EscapeIterInner::Escaped(escaped) => escaped.len(),
        }
    }
}

impl FusedIterator for CharEscapeIter {}

impl Display for CharEscapeIter {
    fn fmt(&self, f: &mut Formatter<'_>) -> fmt::Result {
        Display::fmt(&self.inner, f)
    }
}

#[derive(Clone, Debug)]
struct EscapeIterEscaped {
    // SAFETY: all values must be in the ASCII range
    bytes: [u8; 10],
    // SAFETY: range must not be out of bounds for length 10
    range: Range<usize>,
}

impl Iterator for EscapeIterEscaped {
    type Item = char;

    #[inline]
    fn next(&mut self) -> Option<Self::Item> {
        self.range.next().map(|index| unsafe {
            // SAFETY: the range is never out of bounds for length 10
            char::from(*self.bytes.get_unchecked(index))
        })
    }

    #[inline]
    fn size_hint(&self) -> (usize, Option<usize>) {
        self.range.size_hint()
    }

    #[inline]
    fn count(self) -> usize {
        self.range.len()
    }
}

impl ExactSizeIterator for EscapeIterEscaped {
    #[inline]
    fn len(&self) -> usize {
        self.range.len()
    }
}

impl FusedIterator for EscapeIterEscaped {}

impl Display for EscapeIterEscaped {
    #[inline]
    fn fmt(&self, f: &mut Formatter<'_>) -> fmt::Result {
        let str = unsafe {
            // SAFETY: all bytes are in ASCII range, and range is in bounds for length 10
            std::str::from_utf8_unchecked(self.bytes.get_unchecked(self.range.clone()))
        };
        f.write_str(str)
    }
}

pub type ToLowercase = CharIterDelegate<std::char::ToLowercase>;
pub type ToUppercase = CharIterDelegate<std::char::ToUppercase>;

#[derive(Debug, Clone)]
pub struct CharIterDelegate<I>(CharIterDelegateInner<I>);

impl<I> CharIterDelegate<I> {
    #[inline]
    fn char(iter: I) -> CharIterDelegate<I> {
        CharIterDelegate(CharIterDelegateInner::Char(iter))
    }

    #[inline]
    fn invalid(code_point: JavaCodePoint) -> CharIterDelegate<I> {
        CharIterDelegate(CharIterDelegateInner::Invalid(Some(code_point).into_iter()))
    }
}

#[derive(Debug, Clone)]
enum CharIterDelegateInner<I> {
    Char(I),
    Invalid(std::option::IntoIter<JavaCodePoint>),
}

impl<I> Iterator for CharIterDelegate<I>
where
    I: Iterator<Item = char>,
{
    type Item = JavaCodePoint;

    #[inline]
    fn next(&mut self) -> Option<Self::Item> {
        match &mut self.0 {
            CharIterDelegateInner::Char(char_iter) => {
                char_iter.next().map(JavaCodePoint::from_char)
            }
            CharIterDelegateInner::Invalid(code_point) => code_point.next(),
        }
    }

    #[inline]
    fn size_hint(&self) -> (usize, Option<usize>) {
        match &self.0 {
            CharIterDelegateInner::Char(char_iter) => char_iter.size_hint(),
            CharIterDelegateInner::Invalid(code_point) => code_point.size_hint(),
        }
    }
}

impl<I> DoubleEndedIterator for CharIterDelegate<I>
where
    I: Iterator<Item = char> + DoubleEndedIterator,
{
    #[inline]
    fn next_back(&mut self) -> Option<Self::Item> {
        match &mut self.0 {
            CharIterDelegateInner::Char(char_iter) => {
                char_iter.next_back().map(JavaCodePoint::from_char)
            }
            CharIterDelegateInner::Invalid(code_point) => code_point.next_back(),
        }
    }
}

impl<I> ExactSizeIterator for CharIterDelegate<I> where I: Iterator<Item = char> + ExactSizeIterator {}

impl<I> FusedIterator for CharIterDelegate<I> where I: Iterator<Item = char> + FusedIterator {}
