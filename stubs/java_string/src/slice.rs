use std::borrow::Cow;
use std::collections::Bound;
use std::fmt::{Debug, Display, Formatter, Write};
use std::hash::{Hash, Hasher};
use std::ops::{
    Add, AddAssign, Index, IndexMut, Range, RangeBounds, RangeFrom, RangeFull, RangeInclusive,
    RangeTo, RangeToInclusive,
};
use std::rc::Rc;
use std::str::FromStr;
use std::sync::Arc;
use std::{ptr, slice};

use crate::char::EscapeDebugExtArgs;
use crate::validations::{
    run_utf8_full_validation_from_semi, run_utf8_semi_validation, slice_error_fail,
    str_end_index_overflow_fail,
};
use crate::{
    Bytes, CharEscapeIter, CharIndices, Chars, EscapeDebug, EscapeDefault, EscapeUnicode,
    JavaCodePoint, JavaStrPattern, JavaString, Lines, MatchIndices, Matches, ParseError,
    RMatchIndices, RMatches, RSplit, RSplitN, RSplitTerminator, Split, SplitAsciiWhitespace,
    SplitInclusive, SplitN, SplitTerminator, SplitWhitespace, Utf8Error,
};

#[repr(transparent)]
#[derive(PartialEq, Eq, PartialOrd, Ord)]
pub struct JavaStr {
    inner: [u8],
}

impl JavaStr {
    /// Converts `v` to a `&JavaStr` if it is fully-valid UTF-8, i.e. UTF-8
    /// without surrogate code points. See [`std::str::from_utf8`].
    #[inline]
    pub const fn from_full_utf8(v: &[u8]) -> Result<&JavaStr, Utf8Error> {
        match std::str::from_utf8(v) {
            Ok(str) => Ok(JavaStr::from_str(str)),
            Err(err) => Err(Utf8Error::from_std(err)),
        }
    }

    /// Converts `v` to a `&mut JavaStr` if it is fully-valid UTF-8, i.e. UTF-8
    /// without surrogate code points. See [`std::str::from_utf8_mut`].
    #[inline]
    pub fn from_full_utf8_mut(v: &mut [u8]) -> Result<&mut JavaStr, Utf8Error> {
        match std::str::from_utf8_mut(v) {
            Ok(str) => Ok(JavaStr::from_mut_str(str)),
            Err(err) => Err(Utf8Error::from_std(err)),
        }
    }

    /// Converts `v` to a `&JavaStr` if it is semi-valid UTF-8, i.e. UTF-8
    /// with surrogate code points.
    pub fn from_semi_utf8(v: &[u8]) -> Result<&JavaStr, Utf8Error> {
        match run_utf8_semi_validation(v) {
            Ok(()) => Ok(unsafe { JavaStr::from_semi_utf8_unchecked(v) }),
            Err(err) => Err(err),
        }
    }

    /// Converts `v` to a `&mut JavaStr` if it is semi-valid UTF-8, i.e. UTF-8
    /// with surrogate code points.
    pub fn from_semi_utf8_mut(v: &mut [u8]) -> Result<&mut JavaStr, Utf8Error> {
        match run_utf8_semi_validation(v) {
            Ok(()) => Ok(unsafe { JavaStr::from_semi_utf8_unchecked_mut(v) }),
            Err(err) => Err(err),
        }
    }

    /// # Safety
    ///
    /// The parameter must be in semi-valid UTF-8 format, that is, UTF-8 plus
    /// surrogate code points.
    #[inline]
    #[must_use]
    pub const unsafe fn from_semi_utf8_unchecked(v: &[u8]) -> &JavaStr {
        // SAFETY: the caller must guarantee that the bytes `v` are valid UTF-8, minus
        // the absence of surrogate chars. Also relies on `&JavaStr` and `&[u8]`
        // having the same layout.
        std::mem::transmute(v)
    }

    /// # Safety
    ///
    /// The parameter must be in semi-valid UTF-8 format, that is, UTF-8 plus
    /// surrogate code points.
    #[inline]
    #[must_use]
    pub unsafe fn from_semi_utf8_unchecked_mut(v: &mut [u8]) -> &mut JavaStr {
        // SAFETY: see from_semi_utf8_unchecked
        std::mem::transmute(v)
    }

    #[inline]
    #[must_use]
    pub const fn from_str(str: &str) -> &JavaStr {
        unsafe {
            // SAFETY: the input str is guaranteed to have valid UTF-8.
            JavaStr::from_semi_utf8_unchecked(str.as_bytes())
        }
    }

    #[inline]
    #[must_use]
    pub fn from_mut_str(str: &mut str) -> &mut JavaStr {
        unsafe {
            // SAFETY: the input str is guaranteed to have valid UTF-8.
            JavaStr::from_semi_utf8_unchecked_mut(str.as_bytes_mut())
        }
    }

    #[inline]
    #[must_use]
    pub fn from_boxed_str(v: Box<str>) -> Box<JavaStr> {
        unsafe { JavaStr::from_boxed_semi_utf8_unchecked(v.into_boxed_bytes()) }
    }

    /// # Safety
    ///
    /// The parameter must be in semi-valid UTF-8 format, that is, UTF-8 plus
    /// surrogate code points.
    #[inline]
    #[must_use]
    pub unsafe fn from_boxed_semi_utf8_unchecked(v: Box<[u8]>) -> Box<JavaStr> {
        unsafe { Box::from_raw(Box::into_raw(v) as *mut JavaStr) }
    }

    /// See [`str::as_bytes`].
    #[inline]
    #[must_use]
    pub const fn as_bytes(&self) -> &[u8] {
        &self.inner
    }

    /// See [`str::as_bytes_mut`].
    ///
    /// # Safety
    ///
    /// The returned slice must not have invalid UTF-8 written to it, besides
    /// surrogate pairs.
    #[inline]
    #[must_use]
    pub unsafe fn as_bytes_mut(&mut self) -> &mut [u8] {
        &mut self.inner
    }

    /// See [`str::as_mut_ptr`].
    #[inline]
    #[must_use]
    pub fn as_mut_ptr(&mut self) -> *mut u8 {
        self.inner.as_mut_ptr()
    }

    /// See [`str::as_ptr`].
    #[inline]
    #[must_use]
    pub const fn as_ptr(&self) -> *const u8 {
        self.inner.as_ptr()
    }

    /// Tries to convert this `&JavaStr` to a `&str`, returning an error if
    /// it is not fully valid UTF-8, i.e. has no surrogate code points.
    pub const fn as_str(&self) -> Result<&str, Utf8Error> {
        // Manual implementation of Option::map since it's not const
        match run_utf8_full_validation_from_semi(self.as_bytes()) {
            Ok(..) => unsafe {
                // SAFETY: we were already semi-valid, and full validation just succeeded.
                Ok(self.as_str_unchecked())
            },
            Err(err) => Err(err),
        }
    }

    /// # Safety
    ///
    /// This string must be fully valid UTF-8, i.e. have no surrogate code
    /// points.
    #[inline]
    #[must_use]
    pub const unsafe fn as_str_unchecked(&self) -> &str {
        std::str::from_utf8_unchecked(self.as_bytes())
    }

    /// Converts this `&JavaStr` to a `Cow<str>`, replacing surrogate code
    /// points with the replacement character �.
    ///
    /// ```
    /// # use std::borrow::Cow;
    /// # use java_string::{JavaCodePoint, JavaStr, JavaString};
    /// let s = JavaStr::from_str("Hello 🦀 World!");
    /// let result = s.as_str_lossy();
    /// assert!(matches!(result, Cow::Borrowed(_)));
    /// assert_eq!(result, "Hello 🦀 World!");
    ///
    /// let s = JavaString::from("Hello ")
    ///     + JavaString::from(JavaCodePoint::from_u32(0xd800).unwrap()).as_java_str()
    ///     + JavaStr::from_str(" World!");
    /// let result = s.as_str_lossy();
    /// assert!(matches!(result, Cow::Owned(_)));
    /// assert_eq!(result, "Hello � World!");
    /// ```
    #[must_use]
    pub fn as_str_lossy(&self) -> Cow<'_, str> {
        match run_utf8_full_validation_from_semi(self.as_bytes()) {
            Ok(()) => unsafe {
                // SAFETY: validation succeeded
                Cow::Borrowed(self.as_str_unchecked())
            },
            Err(error) => unsafe {
                // SAFETY: invalid parts of string are converted to replacement char
                Cow::Owned(
                    self.transform_invalid_string(error, str::to_owned, |_| {
                        JavaStr::from_str("\u{FFFD}")
                    })
                    .into_string_unchecked(),
                )
            },
        }
    }

    /// See [`str::bytes`].
    #[inline]
    pub fn bytes(&self) -> Bytes<'_> {
        Bytes {
            inner: self.inner.iter().copied(),
        }
    }

    /// See [`str::char_indices`].
    #[inline]
    pub fn char_indices(&self) -> CharIndices<'_> {
        CharIndices {
            front_offset: 0,
            inner: self.chars(),
        }
    }

    /// See [`str::chars`].
    #[inline]
    pub fn chars(&self) -> Chars<'_> {
        Chars {
            inner: self.inner.iter(),
        }
    }

    /// See [`str::contains`].
    ///
    /// ```
    /// # use java_string::JavaStr;
    /// let bananas = JavaStr::from_str("bananas");
    ///
    /// assert!(bananas.contains("nana"));
    /// assert!(!bananas.contains("apples"));
    /// ```
    #[inline]
    #[must_use]
    pub fn contains<P>(&self, mut pat: P) -> bool
    where
        P: JavaStrPattern,
    {
        pat.find_in(self).is_some()
    }

    /// See [`str::ends_with`].
    ///
    /// ```
    /// # use java_string::JavaStr;
    /// let bananas = JavaStr::from_str("bananas");
    ///
    /// assert!(bananas.ends_with("anas"));
    /// assert!(!bananas.ends_with("nana"));
    /// ```
    #[inline]
    #[must_use]
    pub fn ends_with<P>(&self, mut pat: P) -> bool
    where
        P: JavaStrPattern,
    {
        pat.suffix_len_in(self).is_some()
    }

    /// See [`str::eq_ignore_ascii_case`].
    #[inline]
    #[must_use]
    pub fn eq_ignore_ascii_case(&self, other: &str) -> bool {
        self.as_bytes().eq_ignore_ascii_case(other.as_bytes())
    }

    /// See [`str::eq_ignore_ascii_case`].
    #[inline]
    #[must_use]
    pub fn eq_java_ignore_ascii_case(&self, other: &JavaStr) -> bool {
        self.as_bytes().eq_ignore_ascii_case(other.as_bytes())
    }

    /// See [`str::escape_debug`].
    ///
    /// ```
    /// # use java_string::JavaStr;
    /// assert_eq!(
    ///     JavaStr::from_str("❤\n!").escape_debug().to_string(),
    ///     "❤\\n!"
    /// );
    /// ```
    #[inline]
    pub fn escape_debug(&self) -> EscapeDebug<'_> {
        #[inline]
        fn escape_first(first: JavaCodePoint) -> CharEscapeIter {
            first.escape_debug_ext(EscapeDebugExtArgs::ESCAPE_ALL)
        }
        #[inline]
        fn escape_rest(char: JavaCodePoint) -> CharEscapeIter {
            char.escape_debug_ext(EscapeDebugExtArgs {
                escape_single_quote: true,
                escape_double_quote: true,
            })
        }

        let mut chars = self.chars();
        EscapeDebug {
            inner: chars
                .next()
                .map(escape_first as fn(JavaCodePoint) -> CharEscapeIter)
                .into_iter()
                .flatten()
                .chain(chars.flat_map(escape_rest as fn(JavaCodePoint) -> CharEscapeIter)),
        }
    }

    /// See [`str::escape_default`].
    ///
    /// ```
    /// # use java_string::JavaStr;
    /// assert_eq!(
    ///     JavaStr::from_str("❤\n!").escape_default().to_string(),
    ///     "\\u{2764}\\n!"
    /// );
    /// ```
    #[inline]
    pub fn escape_default(&self) -> EscapeDefault<'_> {
        EscapeDefault {
            inner: self.chars().flat_map(JavaCodePoint::escape_default),
        }
    }

    /// See [`str::escape_unicode`].
    ///
    /// ```
    /// # use java_string::JavaStr;
    /// assert_eq!(
    ///     JavaStr::from_str("❤\n!").escape_unicode().to_string(),
    ///     "\\u{2764}\\u{a}\\u{21}"
    /// );
    /// ```
    #[inline]
    pub fn escape_unicode(&self) -> EscapeUnicode<'_> {
        EscapeUnicode {
            inner: self.chars().flat_map(JavaCodePoint::escape_unicode),
        }
    }

    /// See [`str::find`].
    ///
    /// ```
    /// let s = "Löwe 老虎 Léopard Gepardi";
    ///
    /// assert_eq!(s.find('L'), Some(0));
    /// assert_eq!(s.find('é'), Some(14));
    /// assert_eq!(s.find("pard"), Some(17));
    ///
    /// let x: &[_] = &['1', '2'];
    /// assert_eq!(s.find(x), None);
    /// ```
    #[inline]
    #[must_use]
    pub fn find<P>(&self, mut pat: P) -> Option<usize>
    where
        P: JavaStrPattern,
    {
        pat.find_in(self).map(|(index, _)| index)
    }

    /// See [`str::get`].
    ///
    /// ```
    /// # use java_string::{JavaStr, JavaString};
    /// let v = JavaString::from("🗻∈🌏");
    ///
    /// assert_eq!(Some(JavaStr::from_str("🗻")), v.get(0..4));
    ///
    /// // indices not on UTF-8 sequence boundaries
    /// assert!(v.get(1..).is_none());
    /// assert!(v.get(..8).is_none());
    ///
    /// // out of bounds
    /// assert!(v.get(..42).is_none());
    /// ```
    #[inline]
    #[must_use]
    pub fn get<I>(&self, i: I) -> Option<&JavaStr>
    where
        I: JavaStrSliceIndex,
    {
        i.get(self)
    }

    /// See [`str::get_mut`].
    #[inline]
    #[must_use]
    pub fn get_mut<I>(&mut self, i: I) -> Option<&mut JavaStr>
    where
        I: JavaStrSliceIndex,
    {
        i.get_mut(self)
    }

    /// See [`str::get_unchecked`].
    ///
    /// # Safety
    ///
    /// - The starting index must not exceed the ending index
    /// - Indexes must be within bounds of the original slice
    /// - Indexes must lie on UTF-8 sequence boundaries
    #[inline]
    #[must_use]
    pub unsafe fn get_unchecked<I>(&self, i: I) -> &JavaStr
    where
        I: JavaStrSliceIndex,
    {
        unsafe { &*i.get_unchecked(self) }
    }

    /// See [`str::get_unchecked_mut`].
    ///
    /// # Safety
    ///
    /// - The starting index must not exceed the ending index
    /// - Indexes must be within bounds of the original slice
    /// - Indexes must lie on UTF-8 sequence boundaries
    #[inline]
    #[must_use]
    pub unsafe fn get_unchecked_mut<I>(&mut self, i: I) -> &mut JavaStr
    where
        I: JavaStrSliceIndex,
    {
        unsafe { &mut *i.get_unchecked_mut(self) }
    }

    /// See [`str::into_boxed_bytes`].
    #[inline]
    #[must_use]
    pub fn into_boxed_bytes(self: Box<JavaStr>) -> Box<[u8]> {
        unsafe { Box::from_raw(Box::into_raw(self) as *mut [u8]) }
    }

    /// See [`str::into_string`].
    #[inline]
    #[must_use]
    pub fn into_string(self: Box<JavaStr>) -> JavaString {
        let slice = self.into_boxed_bytes();
        unsafe { JavaString::from_semi_utf8_unchecked(slice.into_vec()) }
    }

    /// See [`str::is_ascii`].
    #[inline]
    #[must_use]
    pub fn is_ascii(&self) -> bool {
        self.as_bytes().is_ascii()
    }

    /// See [`str::is_char_boundary`].
    #[inline]
    #[must_use]
    pub fn is_char_boundary(&self, index: usize) -> bool {
        // 0 is always ok.
        // Test for 0 explicitly so that it can optimize out the check
        // easily and skip reading string data for that case.
        // Note that optimizing `self.get(..index)` relies on this.
        if index == 0 {
            return true;
        }

        match self.as_bytes().get(index) {
            // For `None` we have two options:
            //
            // - index == self.len() Empty strings are valid, so return true
            // - index > self.len() In this case return false
            //
            // The check is placed exactly here, because it improves generated
            // code on higher opt-levels. See https://github.com/rust-lang/rust/pull/84751 for more details.
            None => index == self.len(),

            Some(&b) => {
                // This is bit magic equivalent to: b < 128 || b >= 192
                (b as i8) >= -0x40
            }
        }
    }

    pub(crate) fn floor_char_boundary(&self, index: usize) -> usize {
        if index >= self.len() {
            self.len()
        } else {
            let lower_bound = index.saturating_sub(3);
            let new_index = self.as_bytes()[lower_bound..=index].iter().rposition(|b| {
                // This is bit magic equivalent to: b < 128 || b >= 192
                (*b as i8) >= -0x40
            });

            // SAFETY: we know that the character boundary will be within four bytes
            unsafe { lower_bound + new_index.unwrap_unchecked() }
        }
    }

    /// See [`str::is_empty`].
    #[inline]
    #[must_use]
    pub fn is_empty(&self) -> bool {
        self.len() == 0
    }

    /// See [`str::len`].
    #[inline]
    #[must_use]
    pub fn len(&self) -> usize {
        self.inner.len()
    }

    /// See [`str::lines`].
    #[inline]
    pub fn lines(&self) -> Lines<'_> {
        Lines {
            inner: self.split_inclusive('\n').map(|line| {
                let Some(line) = line.strip_suffix('\n') else {
                    return line;
                };
                let Some(line) = line.strip_suffix('\r') else {
                    return line;
                };
                line
            }),
        }
    }

    /// See [`str::make_ascii_lowercase`].
    #[inline]
    pub fn make_ascii_lowercase(&mut self) {
        // SAFETY: changing ASCII letters only does not invalidate UTF-8.
        let me = unsafe { self.as_bytes_mut() };
        me.make_ascii_lowercase()
    }

    /// See [`str::make_ascii_uppercase`].
    #[inline]
    pub fn make_ascii_uppercase(&mut self) {
        // SAFETY: changing ASCII letters only does not invalidate UTF-8.
        let me = unsafe { self.as_bytes_mut() };
        me.make_ascii_uppercase()
    }

    /// See [`str::match_indices`].
    ///
    /// ```
    /// # use java_string::JavaStr;
    /// let v: Vec<_> = JavaStr::from_str("abcXXXabcYYYabc")
    ///     .match_indices("abc")
    ///     .collect();
    /// assert_eq!(
    ///     v,
    ///     [
    ///         (0, JavaStr::from_str("abc")),
    ///         (6, JavaStr::from_str("abc")),
    ///         (12, JavaStr::from_str("abc"))
    ///     ]
    /// );
    ///
    /// let v: Vec<_> = JavaStr::from_str("1abcabc2").match_indices("abc").collect();
    /// assert_eq!(
    ///     v,
    ///     [(1, JavaStr::from_str("abc")), (4, JavaStr::from_str("abc"))]
    /// );
    ///
    /// let v: Vec<_> = JavaStr::from_str("ababa").match_indices("aba").collect();
    /// assert_eq!(v, [(0, JavaStr::from_str("aba"))]); // only the first `aba`
    /// ```
    #[inline]
    pub fn match_indices<P>(&self, pat: P) -> MatchIndices<P>
    where
        P: JavaStrPattern,
    {
        MatchIndices {
            str: self,
            start: 0,
            pat,
        }
    }

    /// See [`str::matches`].
    ///
    /// ```
    /// # use java_string::{JavaCodePoint, JavaStr};
    /// let v: Vec<&JavaStr> = JavaStr::from_str("abcXXXabcYYYabc")
    ///     .matches("abc")
    ///     .collect();
    /// assert_eq!(
    ///     v,
    ///     [
    ///         JavaStr::from_str("abc"),
    ///         JavaStr::from_str("abc"),
    ///         JavaStr::from_str("abc")
    ///     ]
    /// );
    ///
    /// let v: Vec<&JavaStr> = JavaStr::from_str("1abc2abc3")
    ///     .matches(JavaCodePoint::is_numeric)
    ///     .collect();
    /// assert_eq!(
    ///     v,
    ///     [
    ///         JavaStr::from_str("1"),
    ///         JavaStr::from_str("2"),
    ///         JavaStr::from_str("3")
    ///     ]
    /// );
    /// ```
    #[inline]
    pub fn matches<P>(&self, pat: P) -> Matches<P>
    where
        P: JavaStrPattern,
    {
        Matches { str: self, pat }
    }

    /// See [`str::parse`].
    #[inline]
    pub fn parse<F>(&self) -> Result<F, ParseError<<F as FromStr>::Err>>
    where
        F: FromStr,
    {
        match self.as_str() {
            Ok(str) => str.parse().map_err(ParseError::Err),
            Err(err) => Err(ParseError::InvalidUtf8(err)),
        }
    }

    /// See [`str::repeat`].
    #[inline]
    #[must_use]
    pub fn repeat(&self, n: usize) -> JavaString {
        unsafe { JavaString::from_semi_utf8_unchecked(self.as_bytes().repeat(n)) }
    }

    /// See [`str::replace`].
    ///
    /// ```
    /// # use java_string::JavaStr;
    /// let s = JavaStr::from_str("this is old");
    ///
    /// assert_eq!("this is new", s.replace("old", "new"));
    /// assert_eq!("than an old", s.replace("is", "an"));
    /// ```
    #[inline]
    #[must_use]
    pub fn replace<P>(&self, from: P, to: &str) -> JavaString
    where
        P: JavaStrPattern,
    {
        self.replace_java(from, JavaStr::from_str(to))
    }

    /// See [`str::replace`].
    #[inline]
    #[must_use]
    pub fn replace_java<P>(&self, from: P, to: &JavaStr) -> JavaString
    where
        P: JavaStrPattern,
    {
        let mut result = JavaString::new();
        let mut last_end = 0;
        for (start, part) in self.match_indices(from) {
            result.push_java_str(unsafe { self.get_unchecked(last_end..start) });
            result.push_java_str(to);
            last_end = start + part.len();
        }
        result.push_java_str(unsafe { self.get_unchecked(last_end..self.len()) });
        result
    }

    /// See [`str::replacen`].
    ///
    /// ```
    /// # use java_string::{JavaCodePoint, JavaStr};
    /// let s = JavaStr::from_str("foo foo 123 foo");
    /// assert_eq!("new new 123 foo", s.replacen("foo", "new", 2));
    /// assert_eq!("faa fao 123 foo", s.replacen('o', "a", 3));
    /// assert_eq!(
    ///     "foo foo new23 foo",
    ///     s.replacen(JavaCodePoint::is_numeric, "new", 1)
    /// );
    /// ```
    #[inline]
    #[must_use]
    pub fn replacen<P>(&self, from: P, to: &str, count: usize) -> JavaString
    where
        P: JavaStrPattern,
    {
        self.replacen_java(from, JavaStr::from_str(to), count)
    }

    /// See [`str::replacen`].
    #[inline]
    #[must_use]
    pub fn replacen_java<P>(&self, from: P, to: &JavaStr, count: usize) -> JavaString
    where
        P: JavaStrPattern,
    {
        // Hope to reduce the times of re-allocation
        let mut result = JavaString::with_capacity(32);
        let mut last_end = 0;
        for (start, part) in self.match_indices(from).take(count) {
            result.push_java_str(unsafe { self.get_unchecked(last_end..start) });
            result.push_java_str(to);
            last_end = start + part.len();
        }
        result.push_java_str(unsafe { self.get_unchecked(last_end..self.len()) });
        result
    }

    /// See [`str::rfind`].
    ///
    /// ```
    /// # use java_string::JavaStr;
    /// let s = JavaStr::from_str("Löwe 老虎 Léopard Gepardi");
    ///
    /// assert_eq!(s.rfind('L'), Some(13));
    /// assert_eq!(s.rfind('é'), Some(14));
    /// assert_eq!(s.rfind("pard"), Some(24));
    ///
    /// let x: &[_] = &['1', '2'];
    /// assert_eq!(s.rfind(x), None);
    /// ```
    #[inline]
    #[must_use]
    pub fn rfind<P>(&self, mut pat: P) -> Option<usize>
    where
        P: JavaStrPattern,
    {
        pat.rfind_in(self).map(|(index, _)| index)
    }

    /// See [`str::rmatch_indices`].
    ///
    /// ```
    /// # use java_string::JavaStr;
    /// let v: Vec<_> = JavaStr::from_str("abcXXXabcYYYabc")
    ///     .rmatch_indices("abc")
    ///     .collect();
    /// assert_eq!(
    ///     v,
    ///     [
    ///         (12, JavaStr::from_str("abc")),
    ///         (6, JavaStr::from_str("abc")),
    ///         (0, JavaStr::from_str("abc"))
    ///     ]
    /// );
    ///
    /// let v: Vec<_> = JavaStr::from_str("1abcabc2")
    ///     .rmatch_indices("abc")
    ///     .collect();
    /// assert_eq!(
    ///     v,
    ///     [(4, JavaStr::from_str("abc")), (1, JavaStr::from_str("abc"))]
    /// );
    ///
    /// let v: Vec<_> = JavaStr::from_str("ababa").rmatch_indices("aba").collect();
    /// assert_eq!(v, [(2, JavaStr::from_str("aba"))]); // only the last `aba`
    /// ```
    #[inline]
    pub fn rmatch_indices<P>(&self, pat: P) -> RMatchIndices<P>
    where
        P: JavaStrPattern,
    {
        RMatchIndices {
            inner: self.match_indices(pat),
        }
    }

    /// See [`str::rmatches`].
    ///
    /// ```
    /// # use java_string::{JavaCodePoint, JavaStr};
    /// let v: Vec<&JavaStr> = JavaStr::from_str("abcXXXabcYYYabc")
    ///     .rmatches("abc")
    ///     .collect();
    /// assert_eq!(
    ///     v,
    ///     [
    ///         JavaStr::from_str("abc"),
    ///         JavaStr::from_str("abc"),
    ///         JavaStr::from_str("abc")
    ///     ]
    /// );
    ///
    /// let v: Vec<&JavaStr> = JavaStr::from_str("1abc2abc3")
    ///     .rmatches(JavaCodePoint::is_numeric)
    ///     .collect();
    /// assert_eq!(
    ///     v,
    ///     [
    ///         JavaStr::from_str("3"),
    ///         JavaStr::from_str("2"),
    ///         JavaStr::from_str("1")
    ///     ]
    /// );
    /// ```
    #[inline]
    pub fn rmatches<P>(&self, pat: P) -> RMatches<P>
    where
        P: JavaStrPattern,
    {
        RMatches {
            inner: self.matches(pat),
        }
    }

    /// See [`str::rsplit`].
    ///
    /// ```
    /// # use java_string::JavaStr;
    /// let v: Vec<&JavaStr> = JavaStr::from_str("Mary had a little lamb")
    ///     .rsplit(' ')
    ///     .collect();
    /// assert_eq!(
    ///     v,
    ///     [
    ///         JavaStr::from_str("lamb"),
    ///         JavaStr::from_str("little"),
    ///         JavaStr::from_str("a"),
    ///         JavaStr::from_str("had"),
    ///         JavaStr::from_str("Mary")
    ///     ]
    /// );
    ///
    /// let v: Vec<&JavaStr> = JavaStr::from_str("").rsplit('X').collect();
    /// assert_eq!(v, [JavaStr::from_str("")]);
    ///
    /// let v: Vec<&JavaStr> = JavaStr::from_str("lionXXtigerXleopard")
    ///     .rsplit('X')
    ///     .collect();
    /// assert_eq!(
    ///     v,
    ///     [
    ///         JavaStr::from_str("leopard"),
    ///         JavaStr::from_str("tiger"),
    ///         JavaStr::from_str(""),
    ///         JavaStr::from_str("lion")
    ///     ]
    /// );
    ///
    /// let v: Vec<&JavaStr> = JavaStr::from_str("lion::tiger::leopard")
    ///     .rsplit("::")
    ///     .collect();
    /// assert_eq!(
    ///     v,
    ///     [
    ///         JavaStr::from_str("leopard"),
    ///         JavaStr::from_str("tiger"),
    ///         JavaStr::from_str("lion")
    ///     ]
    /// );
    /// ```
    #[inline]
    pub fn rsplit<P>(&self, pat: P) -> RSplit<P>
    where
        P: JavaStrPattern,
    {
        RSplit::new(self, pat)
    }

    /// See [`str::rsplit_once`].
    ///
    /// ```
    /// # use java_string::JavaStr;
    /// assert_eq!(JavaStr::from_str("cfg").rsplit_once('='), None);
    /// assert_eq!(
    ///     JavaStr::from_str("cfg=foo").rsplit_once('='),
    ///     Some((JavaStr::from_str("cfg"), JavaStr::from_str("foo")))
    /// );
    /// assert_eq!(
    ///     JavaStr::from_str("cfg=foo=bar").rsplit_once('='),
    ///     Some((JavaStr::from_str("cfg=foo"), JavaStr::from_str("bar")))
    /// );
    /// ```
    #[inline]
    #[must_use]
    pub fn rsplit_once<P>(&self, mut delimiter: P) -> Option<(&JavaStr, &JavaStr)>
    where
        P: JavaStrPattern,
    {
        let (index, len) = delimiter.rfind_in(self)?;
        // SAFETY: pattern is known to return valid indices.
        unsafe {
            Some((
                self.get_unchecked(..index),
                self.get_unchecked(index + len..),
            ))
        }
    }

    /// See [`str::rsplit_terminator`].
    ///
    /// ```
    /// # use java_string::JavaStr;
    /// let v: Vec<&JavaStr> = JavaStr::from_str("A.B.").rsplit_terminator('.').collect();
    /// assert_eq!(v, [JavaStr::from_str("B"), JavaStr::from_str("A")]);
    ///
    /// let v: Vec<&JavaStr> = JavaStr::from_str("A..B..").rsplit_terminator(".").collect();
    /// assert_eq!(
    ///     v,
    ///     [
    ///         JavaStr::from_str(""),
    ///         JavaStr::from_str("B"),
    ///         JavaStr::from_str(""),
    ///         JavaStr::from_str("A")
    ///     ]
    /// );
    ///
    /// let v: Vec<&JavaStr> = JavaStr::from_str("A.B:C.D")
    ///     .rsplit_terminator(&['.', ':'][..])
    ///     .collect();
    /// assert_eq!(
    ///     v,
    ///     [
    ///         JavaStr::from_str("D"),
    ///         JavaStr::from_str("C"),
    ///         JavaStr::from_str("B"),
    ///         JavaStr::from_str("A")
    ///     ]
    /// );
    /// ```
    #[inline]
    pub fn rsplit_terminator<P>(&self, pat: P) -> RSplitTerminator<P>
    where
        P: JavaStrPattern,
    {
        RSplitTerminator::new(self, pat)
    }

    /// See [`str::rsplitn`].
    ///
    /// ```
    /// # use java_string::JavaStr;
    /// let v: Vec<&JavaStr> = JavaStr::from_str("Mary had a little lamb")
    ///     .rsplitn(3, ' ')
    ///     .collect();
    /// assert_eq!(
    ///     v,
    ///     [
    ///         JavaStr::from_str("lamb"),
    ///         JavaStr::from_str("little"),
    ///         JavaStr::from_str("Mary had a")
    ///     ]
    /// );
    ///
    /// let v: Vec<&JavaStr> = JavaStr::from_str("lionXXtigerXleopard")
    ///     .rsplitn(3, 'X')
    ///     .collect();
    /// assert_eq!(
    ///     v,
    ///     [
    ///         JavaStr::from_str("leopard"),
    ///         JavaStr::from_str("tiger"),
    ///         JavaStr::from_str("lionX")
    ///     ]
    /// );
    ///
    /// let v: Vec<&JavaStr> = JavaStr::from_str("lion::tiger::leopard")
    ///     .rsplitn(2, "::")
    ///     .collect();
    /// assert_eq!(
    ///     v,
    ///     [
    ///         JavaStr::from_str("leopard"),
    ///         JavaStr::from_str("lion::tiger")
    ///     ]
    /// );
    /// ```
    #[inline]
    pub fn rsplitn<P>(&self, n: usize, pat: P) -> RSplitN<P>
    where
        P: JavaStrPattern,
    {
        RSplitN::new(self, pat, n)
    }

    /// See [`str::split`].
    ///
    /// ```
    /// # use java_string::{JavaCodePoint, JavaStr};
    /// let v: Vec<&JavaStr> = JavaStr::from_str("Mary had a little lamb")
    ///     .split(' ')
    ///     .collect();
    /// assert_eq!(
    ///     v,
    ///     [
    ///         JavaStr::from_str("Mary"),
    ///         JavaStr::from_str("had"),
    ///         JavaStr::from_str("a"),
    ///         JavaStr::from_str("little"),
    ///         JavaStr::from_str("lamb")
    ///     ]
    /// );
    ///
    /// let v: Vec<&JavaStr> = JavaStr::from_str("").split('X').collect();
    /// assert_eq!(v, [JavaStr::from_str("")]);
    ///
    /// let v: Vec<&JavaStr> = JavaStr::from_str("lionXXtigerXleopard")
    ///     .split('X')
    ///     .collect();
    /// assert_eq!(
    ///     v,
    ///     [
    ///         JavaStr::from_str("lion"),
    ///         JavaStr::from_str(""),
    ///         JavaStr::from_str("tiger"),
    ///         JavaStr::from_str("leopard")
    ///     ]
    /// );
    ///
    /// let v: Vec<&JavaStr> = JavaStr::from_str("lion::tiger::leopard")
    ///     .split("::")
    ///     .collect();
    /// assert_eq!(
    ///     v,
    ///     [
    ///         JavaStr::from_str("lion"),
    ///         JavaStr::from_str("tiger"),
    ///         JavaStr::from_str("leopard")
    ///     ]
    /// );
    ///
    /// let v: Vec<&JavaStr> = JavaStr::from_str("abc1def2ghi")
    ///     .split(JavaCodePoint::is_numeric)
    ///     .collect();
    /// assert_eq!(
    ///     v,
    ///     [
    ///         JavaStr::from_str("abc"),
    ///         JavaStr::from_str("def"),
    ///         JavaStr::from_str("ghi")
    ///     ]
    /// );
    ///
    /// let v: Vec<&JavaStr> = JavaStr::from_str("lionXtigerXleopard")
    ///     .split(JavaCodePoint::is_uppercase)
    ///     .collect();
    /// assert_eq!(
    ///     v,
    ///     [
    ///         JavaStr::from_str("lion"),
    ///         JavaStr::from_str("tiger"),
    ///         JavaStr::from_str("leopard")
    ///     ]
    /// );
    /// ```
    #[inline]
    pub fn split<P>(&self, pat: P) -> Split<P>
    where
        P: JavaStrPattern,
    {
        Split::new(self, pat)
    }

    /// See [`str::split_ascii_whitespace`].
    ///
    /// ```
    /// # use java_string::JavaStr;
    /// let mut iter = JavaStr::from_str(" Mary   had\ta little  \n\t lamb").split_ascii_whitespace();
    /// assert_eq!(Some(JavaStr::from_str("Mary")), iter.next());
    /// assert_eq!(Some(JavaStr::from_str("had")), iter.next());
    /// assert_eq!(Some(JavaStr::from_str("a")), iter.next());
    /// assert_eq!(Some(JavaStr::from_str("little")), iter.next());
    /// assert_eq!(Some(JavaStr::from_str("lamb")), iter.next());
    ///
    /// assert_eq!(None, iter.next());
    /// ```
    #[inline]
    pub fn split_ascii_whitespace(&self) -> SplitAsciiWhitespace<'_> {
        #[inline]
        fn is_non_empty(bytes: &&[u8]) -> bool {
            !bytes.is_empty()
        }

        SplitAsciiWhitespace {
            inner: self
                .as_bytes()
                .split(u8::is_ascii_whitespace as fn(&u8) -> bool)
                .filter(is_non_empty as fn(&&[u8]) -> bool)
                .map(|bytes| unsafe { JavaStr::from_semi_utf8_unchecked(bytes) }),
        }
    }

    /// See [`str::split_at`].
    ///
    /// ```
    /// # use java_string::JavaStr;
    /// let s = JavaStr::from_str("Per Martin-Löf");
    ///
    /// let (first, last) = s.split_at(3);
    ///
    /// assert_eq!("Per", first);
    /// assert_eq!(" Martin-Löf", last);
    /// ```
    /// ```should_panic
    /// # use java_string::JavaStr;
    /// let s = JavaStr::from_str("Per Martin-Löf");
    /// // Should panic
    /// let _ = s.split_at(13);
    /// ```
    #[inline]
    #[must_use]
    pub fn split_at(&self, mid: usize) -> (&JavaStr, &JavaStr) {
        // is_char_boundary checks that the index is in [0, .len()]
        if self.is_char_boundary(mid) {
            // SAFETY: just checked that `mid` is on a char boundary.
            unsafe {
                (
                    self.get_unchecked(0..mid),
                    self.get_unchecked(mid..self.len()),
                )
            }
        } else {
            slice_error_fail(self, 0, mid)
        }
    }

    /// See [`str::split_at_mut`].
    ///
    /// ```
    /// # use java_string::{JavaStr, JavaString};
    /// let mut s = JavaString::from("Per Martin-Löf");
    /// let s = s.as_mut_java_str();
    ///
    /// let (first, last) = s.split_at_mut(3);
    ///
    /// assert_eq!("Per", first);
    /// assert_eq!(" Martin-Löf", last);
    /// ```
    /// ```should_panic
    /// # use java_string::{JavaStr, JavaString};
    /// let mut s = JavaString::from("Per Martin-Löf");
    /// let s = s.as_mut_java_str();
    /// // Should panic
    /// let _ = s.split_at(13);
    /// ```
    #[inline]
    #[must_use]
    pub fn split_at_mut(&mut self, mid: usize) -> (&mut JavaStr, &mut JavaStr) {
        // is_char_boundary checks that the index is in [0, .len()]
        if self.is_char_boundary(mid) {
            let len = self.len();
            let ptr = self.as_mut_ptr();
            // SAFETY: just checked that `mid` is on a char boundary.
            unsafe {
                (
                    JavaStr::from_semi_utf8_unchecked_mut(slice::from_raw_parts_mut(ptr, mid)),
                    JavaStr::from_semi_utf8_unchecked_mut(slice::from_raw_parts_mut(
                        ptr.add(mid),
                        len - mid,
                    )),
                )
            }
        } else {
            slice_error_fail(self, 0, mid)
        }
    }

    /// See [`str::split_inclusive`].
    ///
    /// ```
    /// # use java_string::JavaStr;
    /// let v: Vec<&JavaStr> = JavaStr::from_str("Mary had a little lamb\nlittle lamb\nlittle lamb.\n")
    ///     .split_inclusive('\n')
    ///     .collect();
    /// assert_eq!(
    ///     v,
    ///     [
    ///         JavaStr::from_str("Mary had a little lamb\n"),
    ///         JavaStr::from_str("little lamb\n"),
    ///         JavaStr::from_str("little lamb.\n")
    ///     ]
    /// );
    /// ```
    #[inline]
    pub fn split_inclusive<P>(&self, pat: P) -> SplitInclusive<P>
    where
        P: JavaStrPattern,
    {
        SplitInclusive::new(self, pat)
    }

    /// See [`str::split_once`].
    ///
    /// ```
    /// # use java_string::JavaStr;
    /// assert_eq!(JavaStr::from_str("cfg").split_once('='), None);
    /// assert_eq!(
    ///     JavaStr::from_str("cfg=").split_once('='),
    ///     Some((JavaStr::from_str("cfg"), JavaStr::from_str("")))
    /// );
    /// assert_eq!(
    ///     JavaStr::from_str("cfg=foo").split_once('='),
    ///     Some((JavaStr::from_str("cfg"), JavaStr::from_str("foo")))
    /// );
    /// assert_eq!(
    ///     JavaStr::from_str("cfg=foo=bar").split_once('='),
    ///     Some((JavaStr::from_str("cfg"), JavaStr::from_str("foo=bar")))
    /// );
    /// ```
    #[inline]
    #[must_use]
    pub fn split_once<P>(&self, mut delimiter: P) -> Option<(&JavaStr, &JavaStr)>
    where
        P: JavaStrPattern,
    {
        let (index, len) = delimiter.find_in(self)?;
        // SAFETY: pattern is known to return valid indices.
        unsafe {
            Some((
                self.get_unchecked(..index),
                self.get_unchecked(index + len..),
            ))
        }
    }

    /// See [`str::split_terminator`].
    ///
    /// ```
    /// # use java_string::JavaStr;
    /// let v: Vec<&JavaStr> = JavaStr::from_str("A.B.").split_terminator('.').collect();
    /// assert_eq!(v, [JavaStr::from_str("A"), JavaStr::from_str("B")]);
    ///
    /// let v: Vec<&JavaStr> = JavaStr::from_str("A..B..").split_terminator(".").collect();
    /// assert_eq!(
    ///     v,
    ///     [
    ///         JavaStr::from_str("A"),
    ///         JavaStr::from_str(""),
    ///         JavaStr::from_str("B"),
    ///         JavaStr::from_str("")
    ///     ]
    /// );
    ///
    /// let v: Vec<&JavaStr> = JavaStr::from_str("A.B:C.D")
    ///     .split_terminator(&['.', ':'][..])
    ///     .collect();
    /// assert_eq!(
    ///     v,
    ///     [
    ///         JavaStr::from_str("A"),
    ///         JavaStr::from_str("B"),
    ///         JavaStr::from_str("C"),
    ///         JavaStr::from_str("D")
    ///     ]
    /// );
    /// ```
    #[inline]
    pub fn split_terminator<P>(&self, pat: P) -> SplitTerminator<P>
    where
        P: JavaStrPattern,
    {
        SplitTerminator::new(self, pat)
    }

    /// See [`str::split_whitespace`].
    #[inline]
    pub fn split_whitespace(&self) -> SplitWhitespace<'_> {
        SplitWhitespace {
            inner: self
                .split(JavaCodePoint::is_whitespace as fn(JavaCodePoint) -> bool)
                .filter(|str| !str.is_empty()),
        }
    }

    /// See [`str::splitn`].
    ///
    /// ```
    /// # use java_string::JavaStr;
    /// let v: Vec<&JavaStr> = JavaStr::from_str("Mary had a little lambda")
    ///     .splitn(3, ' ')
    ///     .collect();
    /// assert_eq!(
    ///     v,
    ///     [
    ///         JavaStr::from_str("Mary"),
    ///         JavaStr::from_str("had"),
    ///         JavaStr::from_str("a little lambda")
    ///     ]
    /// );
    ///
    /// let v: Vec<&JavaStr> = JavaStr::from_str("lionXXtigerXleopard")
    ///     .splitn(3, "X")
    ///     .collect();
    /// assert_eq!(
    ///     v,
    ///     [
    ///         JavaStr::from_str("lion"),
    ///         JavaStr::from_str(""),
    ///         JavaStr::from_str("tigerXleopard")
    ///     ]
    /// );
    ///
    /// let v: Vec<&JavaStr> = JavaStr::from_str("abcXdef").splitn(1, 'X').collect();
    /// assert_eq!(v, [JavaStr::from_str("abcXdef")]);
    ///
    /// let v: Vec<&JavaStr> = JavaStr::from_str("").splitn(1, 'X').collect();
    /// assert_eq!(v, [JavaStr::from_str("")]);
    /// ```
    #[inline]
    pub fn splitn<P>(&self, n: usize, pat: P) -> SplitN<P>
    where
        P: JavaStrPattern,
    {
        SplitN::new(self, pat, n)
    }

    /// See [`str::starts_with`].
    ///
    /// ```
    /// # use java_string::JavaStr;
    /// let bananas = JavaStr::from_str("bananas");
    ///
    /// assert!(bananas.starts_with("bana"));
    /// assert!(!bananas.starts_with("nana"));
    /// ```
    #[inline]
    #[must_use]
    pub fn starts_with<P>(&self, mut pat: P) -> bool
    where
        P: JavaStrPattern,
    {
        pat.prefix_len_in(self).is_some()
    }

    /// See [`str::strip_prefix`].
    ///
    /// ```
    /// # use java_string::JavaStr;
    /// assert_eq!(
    ///     JavaStr::from_str("foo:bar").strip_prefix("foo:"),
    ///     Some(JavaStr::from_str("bar"))
    /// );
    /// assert_eq!(JavaStr::from_str("foo:bar").strip_prefix("bar"), None);
    /// assert_eq!(
    ///     JavaStr::from_str("foofoo").strip_prefix("foo"),
    ///     Some(JavaStr::from_str("foo"))
    /// );
    /// ```
    #[inline]
    #[must_use]
    pub fn strip_prefix<P>(&self, mut prefix: P) -> Option<&JavaStr>
    where
        P: JavaStrPattern,
    {
        let len = prefix.prefix_len_in(self)?;
        // SAFETY: pattern is known to return valid indices.
        unsafe { Some(self.get_unchecked(len..)) }
    }

    /// See [`str::strip_suffix`].
    ///
    /// ```
    /// # use java_string::JavaStr;
    /// assert_eq!(
    ///     JavaStr::from_str("bar:foo").strip_suffix(":foo"),
    ///     Some(JavaStr::from_str("bar"))
    /// );
    /// assert_eq!(JavaStr::from_str("bar:foo").strip_suffix("bar"), None);
    /// assert_eq!(
    ///     JavaStr::from_str("foofoo").strip_suffix("foo"),
    ///     Some(JavaStr::from_str("foo"))
    /// );
    /// ```
    #[inline]
    #[must_use]
    pub fn strip_suffix<P>(&self, mut suffix: P) -> Option<&JavaStr>
    where
        P: JavaStrPattern,
    {
        let len = suffix.suffix_len_in(self)?;
        // SAFETY: pattern is known to return valid indices.
        unsafe { Some(self.get_unchecked(..self.len() - len)) }
    }

    /// See [`str::to_ascii_lowercase`].
    #[inline]
    #[must_use]
    pub fn to_ascii_lowercase(&self) -> JavaString {
        let mut s = self.to_owned();
        s.make_ascii_lowercase();
        s
    }

    /// See [`str::to_ascii_uppercase`].
    #[inline]
    #[must_use]
    pub fn to_ascii_uppercase(&self) -> JavaString {
        let mut s = self.to_owned();
        s.make_ascii_uppercase();
        s
    }

    /// See [`str::to_lowercase`].
    ///
    /// ```
    /// # use java_string::{JavaCodePoint, JavaStr, JavaString};
    /// let s = JavaStr::from_str("HELLO");
    /// assert_eq!("hello", s.to_lowercase());
    ///
    /// let odysseus = JavaStr::from_str("ὈΔΥΣΣΕΎΣ");
    /// assert_eq!("ὀδυσσεύς", odysseus.to_lowercase());
    ///
    /// let s = JavaString::from("Hello ")
    ///     + JavaString::from(JavaCodePoint::from_u32(0xd800).unwrap()).as_java_str()
    ///     + JavaStr::from_str(" World!");
    /// let expected = JavaString::from("hello ")
    ///     + JavaString::from(JavaCodePoint::from_u32(0xd800).unwrap()).as_java_str()
    ///     + JavaStr::from_str(" world!");
    /// assert_eq!(expected, s.to_lowercase());
    /// ```
    #[inline]
    #[must_use]
    pub fn to_lowercase(&self) -> JavaString {
        self.transform_string(str::to_lowercase, |ch| ch)
    }

    /// See [str::to_uppercase].
    ///
    /// ```
    /// # use java_string::{JavaCodePoint, JavaStr, JavaString};
    /// let s = JavaStr::from_str("hello");
    /// assert_eq!("HELLO", s.to_uppercase());
    ///
    /// let s = JavaStr::from_str("tschüß");
    /// assert_eq!("TSCHÜSS", s.to_uppercase());
    ///
    /// let s = JavaString::from("Hello ")
    ///     + JavaString::from(JavaCodePoint::from_u32(0xd800).unwrap()).as_java_str()
    ///     + JavaStr::from_str(" World!");
    /// let expected = JavaString::from("HELLO ")
    ///     + JavaString::from(JavaCodePoint::from_u32(0xd800).unwrap()).as_java_str()
    ///     + JavaStr::from_str(" WORLD!");
    /// assert_eq!(expected, s.to_uppercase());
    /// ```
    #[inline]
    #[must_use]
    pub fn to_uppercase(&self) -> JavaString {
        self.transform_string(str::to_uppercase, |ch| ch)
    }

    /// See [str::trim].
    #[inline]
    #[must_use]
    pub fn trim(&self) -> &JavaStr {
        self.trim_matches(|c: JavaCodePoint| c.is_whitespace())
    }

    /// See [str::trim_end].
    #[inline]
    #[must_use]
    pub fn trim_end(&self) -> &JavaStr {
        self.trim_end_matches(|c: JavaCodePoint| c.is_whitespace())
    }

    /// See [str::trim_end_matches].
    ///
    /// ```
    /// # use java_string::{JavaCodePoint, JavaStr};
    /// assert_eq!(
    ///     JavaStr::from_str("11foo1bar11").trim_end_matches('1'),
    ///     "11foo1bar"
    /// );
    /// assert_eq!(
    ///     JavaStr::from_str("123foo1bar123").trim_end_matches(JavaCodePoint::is_numeric),
    ///     "123foo1bar"
    /// );
    ///
    /// let x: &[_] = &['1', '2'];
    /// assert_eq!(
    ///     JavaStr::from_str("12foo1bar12").trim_end_matches(x),
    ///     "12foo1bar"
    /// );
    /// ```
    #[inline]
    #[must_use]
    pub fn trim_end_matches<P>(&self, mut pat: P) -> &JavaStr
    where
        P: JavaStrPattern,
    {
        let mut str = self;
        while let Some(suffix_len) = pat.suffix_len_in(str) {
            if suffix_len == 0 {
                break;
            }
            // SAFETY: pattern is known to return valid indices.
            str = unsafe { str.get_unchecked(..str.len() - suffix_len) };
        }
        str
    }

    /// See [str::trim_matches].
    ///
    /// ```
    /// # use java_string::{JavaCodePoint, JavaStr};
    /// assert_eq!(
    ///     JavaStr::from_str("11foo1bar11").trim_matches('1'),
    ///     "foo1bar"
    /// );
    /// assert_eq!(
    ///     JavaStr::from_str("123foo1bar123").trim_matches(JavaCodePoint::is_numeric),
    ///     "foo1bar"
    /// );
    ///
    /// let x: &[_] = &['1', '2'];
    /// assert_eq!(JavaStr::from_str("12foo1bar12").trim_matches(x), "foo1bar");
    /// ```
    #[inline]
    #[must_use]
    pub fn trim_matches<P>(&self, mut pat: P) -> &JavaStr
    where
        P: JavaStrPattern,
    {
        let mut str = self;
        while let Some(prefix_len) = pat.prefix_len_in(str) {
            if prefix_len == 0 {
                break;
            }
            // SAFETY: pattern is known to return valid indices.
            str = unsafe { str.get_unchecked(prefix_len..) };
        }
        while let Some(suffix_len) = pat.suffix_len_in(str) {
            if suffix_len == 0 {
                break;
            }
            // SAFETY: pattern is known to return valid indices.
            str = unsafe { str.get_unchecked(..str.len() - suffix_len) };
        }
        str
    }

    /// See [str::trim_start].
    #[inline]
    #[must_use]
    pub fn trim_start(&self) -> &JavaStr {
        self.trim_start_matches(|c: JavaCodePoint| c.is_whitespace())
    }

    /// See [str::trim_start_matches].
    ///
    /// ```
    /// # use java_string::{JavaCodePoint, JavaStr};
    /// assert_eq!(
    ///     JavaStr::from_str("11foo1bar11").trim_start_matches('1'),
    ///     "foo1bar11"
    /// );
    /// assert_eq!(
    ///     JavaStr::from_str("123foo1bar123").trim_start_matches(JavaCodePoint::is_numeric),
    ///     "foo1bar123"
    /// );
    ///
    /// let x: &[_] = &['1', '2'];
    /// assert_eq!(
    ///     JavaStr::from_str("12foo1bar12").trim_start_matches(x),
    ///     "foo1bar12"
    /// );
    /// ```
    #[inline]
    #[must_use]
    pub fn trim_start_matches<P>(&self, mut pat: P) -> &JavaStr
    where
        P: JavaStrPattern,
    {
        let mut str = self;
        while let Some(prefix_len) = pat.prefix_len_in(str) {
            if prefix_len == 0 {
                break;
            }
            // SAFETY: pattern is known to return valid indices.
            str = unsafe { str.get_unchecked(prefix_len..) };
        }
        str
    }

    #[inline]
    fn transform_string<SF, ICF>(
        &self,
        mut string_transformer: SF,
        invalid_char_transformer: ICF,
    ) -> JavaString
    where
        SF: FnMut(&str) -> String,
        ICF: FnMut(&JavaStr) -> &JavaStr,
    {
        let bytes = self.as_bytes();
        match run_utf8_full_validation_from_semi(bytes) {
            Ok(()) => JavaString::from(string_transformer(unsafe {
                // SAFETY: validation succeeded
                std::str::from_utf8_unchecked(bytes)
            })),
            Err(error) => {
                self.transform_invalid_string(error, string_transformer, invalid_char_transformer)
            }
        }
    }

    #[inline]
    fn transform_invalid_string<SF, ICF>(
        &self,
        error: Utf8Error,
        mut string_transformer: SF,
        mut invalid_char_transformer: ICF,
    ) -> JavaString
    where
        SF: FnMut(&str) -> String,
        ICF: FnMut(&JavaStr) -> &JavaStr,
    {
        let bytes = self.as_bytes();
        let mut result = JavaString::from(string_transformer(unsafe {
            // SAFETY: validation succeeded up to this index
            std::str::from_utf8_unchecked(bytes.get_unchecked(..error.valid_up_to))
        }));
        result.push_java_str(invalid_char_transformer(unsafe {
            // SAFETY: any UTF-8 error in semi-valid UTF-8 is a 3 byte long sequence
            // representing a surrogate code point. We're pushing that sequence now
            JavaStr::from_semi_utf8_unchecked(
                bytes.get_unchecked(error.valid_up_to..error.valid_up_to + 3),
            )
        }));
        let mut index = error.valid_up_to + 3;
        loop {
            let remainder = unsafe { bytes.get_unchecked(index..) };
            match run_utf8_full_validation_from_semi(remainder) {
                Ok(()) => {
                    result.push_str(&string_transformer(unsafe {
                        // SAFETY: validation succeeded
                        std::str::from_utf8_unchecked(remainder)
                    }));
                    return result;
                }
                Err(error) => {
                    result.push_str(&string_transformer(unsafe {
                        // SAFETY: validation succeeded up to this index
                        std::str::from_utf8_unchecked(
                            bytes.get_unchecked(index..index + error.valid_up_to),
                        )
                    }));
                    result.push_java_str(invalid_char_transformer(unsafe {
                        // SAFETY: see comment above
                        JavaStr::from_semi_utf8_unchecked(bytes.get_unchecked(
                            index + error.valid_up_to..index + error.valid_up_to + 3,
                        ))
                    }));
                    index += error.valid_up_to + 3;
                }
            }
        }
    }
}

impl<'a> Add<&JavaStr> for Cow<'a, JavaStr> {
    type Output = Cow<'a, JavaStr>;

    #[inline]
    fn add(mut self, rhs: &JavaStr) -> Self::Output {
        self += rhs;
        self
    }
}

impl<'a> AddAssign<&JavaStr> for Cow<'a, JavaStr> {
    #[inline]
    fn add_assign(&mut self, rhs: &JavaStr) {
        if !rhs.is_empty() {
            match self {
                Cow::Borrowed(lhs) => {
                    let mut result = lhs.to_owned();
                    result.push_java_str(rhs);
                    *self = Cow::Owned(result);
                }
                Cow::Owned(lhs) => {
                    lhs.push_java_str(rhs);
                }
            }
        }
    }
}

impl AsRef<[u8]> for JavaStr {
    #[inline]
    fn as_ref(&self) -> &[u8] {
        self.as_bytes()
    }
}

impl AsRef<JavaStr> for str {
    #[inline]
    fn as_ref(&self) -> &JavaStr {
        JavaStr::from_str(self)
    }
}

impl AsRef<JavaStr> for String {
    #[inline]
    fn as_ref(&self) -> &JavaStr {
        JavaStr::from_str(self)
    }
}

impl AsRef<JavaStr> for JavaStr {
    #[inline]
    fn as_ref(&self) -> &JavaStr {
        self
    }
}

impl Clone for Box<JavaStr> {
    #[inline]
    fn clone(&self) -> Self {
        let buf: Box<[u8]> = self.as_bytes().into();
        unsafe { JavaStr::from_boxed_semi_utf8_unchecked(buf) }
    }
}

impl Debug for JavaStr {
    fn fmt(&self, f: &mut Formatter<'_>) -> std::fmt::Result {
        f.write_char('"')?;
        let mut from = 0;
        for (i, c) in self.char_indices() {
            let esc = c.escape_debug_ext(EscapeDebugExtArgs {
                escape_single_quote: false,
                escape_double_quote: true,
            });
            // If char needs escaping, flush backlog so far and write, else skip.
            // Also handle invalid UTF-8 here
            if esc.len() != 1 || c.as_char().is_none() {
                unsafe {
                    // SAFETY: any invalid UTF-8 should have been caught by a previous iteration
                    f.write_str(self[from..i].as_str_unchecked())?;
                }
                for c in esc {
                    f.write_char(c)?;
                }
                from = i + c.len_utf8();
            }
        }
        unsafe {
            // SAFETY: any invalid UTF-8 should have been caught by the loop above
            f.write_str(self[from..].as_str_unchecked())?;
        }
        f.write_char('"')
    }
}

impl Default for &JavaStr {
    #[inline]
    fn default() -> Self {
        JavaStr::from_str("")
    }
}

impl Default for Box<JavaStr> {
    #[inline]
    fn default() -> Self {
        JavaStr::from_boxed_str(Box::<str>::default())
    }
}

impl Display for JavaStr {
    fn fmt(&self, f: &mut Formatter<'_>) -> std::fmt::Result {
        Display::fmt(&self.as_str_lossy(), f)
    }
}

impl<'a> From<&'a JavaStr> for Cow<'a, JavaStr> {
    #[inline]
    fn from(value: &'a JavaStr) -> Self {
        Cow::Borrowed(value)
    }
}

impl From<&JavaStr> for Arc<JavaStr> {
    #[inline]
    fn from(value: &JavaStr) -> Self {
        let arc = Arc::<[u8]>::from(value.as_bytes());
        unsafe { Arc::from_raw(Arc::into_raw(arc) as *const JavaStr) }
    }
}

impl From<&JavaStr> for Box<JavaStr> {
    #[inline]
    fn from(value: &JavaStr) -> Self {
        unsafe { JavaStr::from_boxed_semi_utf8_unchecked(Box::from(value.as_bytes())) }
    }
}

impl From<&JavaStr> for Rc<JavaStr> {
    #[inline]
    fn from(value: &JavaStr) -> Self {
        let rc = Rc::<[u8]>::from(value.as_bytes());
        unsafe { Rc::from_raw(Rc::into_raw(rc) as *const JavaStr) }
    }
}

impl From<&JavaStr> for Vec<u8> {
    #[inline]
    fn from(value: &JavaStr) -> Self {
        From::from(value.as_bytes())
    }
}

impl From<Cow<'_, JavaStr>> for Box<JavaStr> {
    #[inline]
    fn from(value: Cow<'_, JavaStr>) -> Self {
        match value {
            Cow::Borrowed(s) => Box::from(s),
            Cow::Owned(s) => Box::from(s),
        }
    }
}

impl From<JavaString> for Box<JavaStr> {
    #[inline]
    fn from(value: JavaString) -> Self {
        value.into_boxed_str()
    }
}

impl<'a> From<&'a str> for &'a JavaStr {
    #[inline]
    fn from(value: &'a str) -> Self {
        JavaStr::from_str(value)
    }
}

impl<'a> From<&'a String> for &'a JavaStr {
    #[inline]
    fn from(value: &'a String) -> Self {
        JavaStr::from_str(value)
    }
}

impl Hash for JavaStr {
    #[inline]
    fn hash<H: Hasher>(&self, state: &mut H) {
        state.write(self.as_bytes());
        state.write_u8(0xff);
    }
}

impl<I> Index<I> for JavaStr
where
    I: JavaStrSliceIndex,
{
    type Output = JavaStr;

    #[inline]
    fn index(&self, index: I) -> &Self::Output {
        index.index(self)
    }
}

impl<I> IndexMut<I> for JavaStr
where
    I: JavaStrSliceIndex,
{
    #[inline]
    fn index_mut(&mut self, index: I) -> &mut Self::Output {
        index.index_mut(self)
    }
}

impl<'a, 'b> PartialEq<&'b JavaStr> for Cow<'a, str> {
    #[inline]
    fn eq(&self, other: &&'b JavaStr) -> bool {
        self == *other
    }
}

impl<'a, 'b> PartialEq<&'b JavaStr> for Cow<'a, JavaStr> {
    #[inline]
    fn eq(&self, other: &&'b JavaStr) -> bool {
        self == *other
    }
}

impl<'a, 'b> PartialEq<Cow<'a, str>> for &'b JavaStr {
    #[inline]
    fn eq(&self, other: &Cow<'a, str>) -> bool {
        *self == other
    }
}

impl<'a> PartialEq<Cow<'a, str>> for JavaStr {
    #[inline]
    fn eq(&self, other: &Cow<'a, str>) -> bool {
        other == self
    }
}

impl<'a, 'b> PartialEq<Cow<'a, JavaStr>> for &'b JavaStr {
    #[inline]
    fn eq(&self, other: &Cow<'a, JavaStr>) -> bool {
        *self == other
    }
}

impl<'a> PartialEq<Cow<'a, JavaStr>> for JavaStr {
    #[inline]
    fn eq(&self, other: &Cow<'a, JavaStr>) -> bool {
        other == self
    }
}

impl<'a> PartialEq<String> for &'a JavaStr {
    #[inline]
    fn eq(&self, other: &String) -> bool {
        *self == other
    }
}

impl PartialEq<String> for JavaStr {
    #[inline]
    fn eq(&self, other: &String) -> bool {
        self == &other[..]
    }
}

impl PartialEq<JavaStr> for String {
    #[inline]
    fn eq(&self, other: &JavaStr) -> bool {
        &self[..] == other
    }
}

impl<'a> PartialEq<JavaString> for &'a JavaStr {
    #[inline]
    fn eq(&self, other: &JavaString) -> bool {
        *self == other
    }
}

impl PartialEq<JavaString> for JavaStr {
    #[inline]
    fn eq(&self, other: &JavaString) -> bool {
        self == other[..]
    }
}

impl<'a> PartialEq<JavaStr> for Cow<'a, str> {
    #[inline]
    fn eq(&self, other: &JavaStr) -> bool {
        match self {
            Cow::Borrowed(this) => this == other,
            Cow::Owned(this) => this == other,
        }
    }
}

impl<'a> PartialEq<JavaStr> for Cow<'a, JavaStr> {
    #[inline]
    fn eq(&self, other: &JavaStr) -> bool {
        match self {
            Cow::Borrowed(this) => this == other,
            Cow::Owned(this) => this == other,
        }
    }
}

impl PartialEq<JavaStr> for str {
    #[inline]
    fn eq(&self, other: &JavaStr) -> bool {
        JavaStr::from_str(self) == other
    }
}

impl<'a> PartialEq<JavaStr> for &'a str {
    #[inline]
    fn eq(&self, other: &JavaStr) -> bool {
        *self == other
    }
}

impl PartialEq<str> for JavaStr {
    #[inline]
    fn eq(&self, other: &str) -> bool {
        self == JavaStr::from_str(other)
    }
}

impl<'a> PartialEq<&'a str> for JavaStr {
    #[inline]
    fn eq(&self, other: &&'a str) -> bool {
        self == *other
    }
}

impl<'a> PartialEq<JavaStr> for &'a JavaStr {
    #[inline]
    fn eq(&self, other: &JavaStr) -> bool {
        *self == other
    }
}

impl<'a> PartialEq<&'a JavaStr> for JavaStr {
    #[inline]
    fn eq(&self, other: &&'a JavaStr) -> bool {
        self == *other
    }
}

impl ToOwned for JavaStr {
    type Owned = JavaString;

    #[inline]
    fn to_owned(&self) -> Self::Owned {
        unsafe { JavaString::from_semi_utf8_unchecked(self.as_bytes().to_vec()) }
    }
}

mod private_slice_index {
    use std::ops;

    pub trait Sealed {}

    impl Sealed for ops::Range<usize> {}
    impl Sealed for ops::RangeTo<usize> {}
    impl Sealed for ops::RangeFrom<usize> {}
    impl Sealed for ops::RangeFull {}
    impl Sealed for ops::RangeInclusive<usize> {}
    impl Sealed for ops::RangeToInclusive<usize> {}
}

/// # Safety
///
/// Implementations' `check_bounds` method must properly check the bounds of the
/// slice, such that calling `get_unchecked` is not UB.
pub unsafe trait JavaStrSliceIndex: private_slice_index::Sealed + Sized {
    fn check_bounds(&self, slice: &JavaStr) -> bool;
    fn check_bounds_fail(self, slice: &JavaStr) -> !;

    /// # Safety
    ///
    /// - The input slice must be a valid pointer
    /// - This index must not be out of bounds of the input slice
    /// - The indices of this slice must point to char boundaries in the input
    ///   slice
    unsafe fn get_unchecked(self, slice: *const JavaStr) -> *const JavaStr;

    /// # Safety
    ///
    /// - The input slice must be a valid pointer
    /// - This index must not be out of bounds of the input slice
    /// - The indices of this slice must point to char boundaries in the input
    ///   slice
    unsafe fn get_unchecked_mut(self, slice: *mut JavaStr) -> *mut JavaStr;

    #[inline]
    fn get(self, slice: &JavaStr) -> Option<&JavaStr> {
        if self.check_bounds(slice) {
            Some(unsafe { &*self.get_unchecked(slice) })
        } else {
            None
        }
    }

    #[inline]
    fn get_mut(self, slice: &mut JavaStr) -> Option<&mut JavaStr> {
        if self.check_bounds(slice) {
            Some(unsafe { &mut *self.get_unchecked_mut(slice) })
        } else {
            None
        }
    }

    #[inline]
    fn index(self, slice: &JavaStr) -> &JavaStr {
        if self.check_bounds(slice) {
            unsafe { &*self.get_unchecked(slice) }
        } else {
            self.check_bounds_fail(slice)
        }
    }

    #[inline]
    fn index_mut(self, slice: &mut JavaStr) -> &mut JavaStr {
        if self.check_bounds(slice) {
            unsafe { &mut *self.get_unchecked_mut(slice) }
        } else {
            self.check_bounds_fail(slice)
        }
    }
}

unsafe impl JavaStrSliceIndex for RangeFull {
    #[inline]
    fn check_bounds(&self, _slice: &JavaStr) -> bool {
        true
    }

    #[inline]
    fn check_bounds_fail(self, _slice: &JavaStr) -> ! {
        unreachable!()
    }

    #[inline]
    unsafe fn get_unchecked(self, slice: *const JavaStr) -> *const JavaStr {
        slice
    }

    #[inline]
    unsafe fn get_unchecked_mut(self, slice: *mut JavaStr) -> *mut JavaStr {
        slice
    }
}

unsafe impl JavaStrSliceIndex for Range<usize> {
    #[inline]
    fn check_bounds(&self, slice: &JavaStr) -> bool {
        self.start <= self.end
            && slice.is_char_boundary(self.start)
            && slice.is_char_boundary(self.end)
    }

    #[inline]
    #[track_caller]
    fn check_bounds_fail(self, slice: &JavaStr) -> ! {
        slice_error_fail(slice, self.start, self.end)
    }

    #[inline]
    unsafe fn get_unchecked(self, slice: *const JavaStr) -> *const JavaStr {
        let slice = slice as *const [u8];
        // SAFETY: the caller guarantees that `self` is in bounds of `slice`
        // which satisfies all the conditions for `add`.
        let ptr = unsafe { (slice as *const u8).add(self.start) };
        let len = self.end - self.start;
        ptr::slice_from_raw_parts(ptr, len) as *const JavaStr
    }

    #[inline]
    unsafe fn get_unchecked_mut(self, slice: *mut JavaStr) -> *mut JavaStr {
        let slice = slice as *mut [u8];
        // SAFETY: see comments for `get_unchecked`.
        let ptr = unsafe { (slice as *mut u8).add(self.start) };
        let len = self.end - self.start;
        ptr::slice_from_raw_parts_mut(ptr, len) as *mut JavaStr
    }
}

unsafe impl JavaStrSliceIndex for RangeTo<usize> {
    #[inline]
    fn check_bounds(&self, slice: &JavaStr) -> bool {
        slice.is_char_boundary(self.end)
    }

    #[inline]
    #[track_caller]
    fn check_bounds_fail(self, slice: &JavaStr) -> ! {
        slice_error_fail(slice, 0, self.end)
    }

    #[inline]
    unsafe fn get_unchecked(self, slice: *const JavaStr) -> *const JavaStr {
        unsafe { (0..self.end).get_unchecked(slice) }
    }

    #[inline]
    unsafe fn get_unchecked_mut(self, slice: *mut JavaStr) -> *mut JavaStr {
        unsafe { (0..self.end).get_unchecked_mut(slice) }
    }
}

unsafe impl JavaStrSliceIndex for RangeFrom<usize> {
    #[inline]
    fn check_bounds(&self, slice: &JavaStr) -> bool {
        slice.is_char_boundary(self.start)
    }

    #[inline]
    #[track_caller]
    fn check_bounds_fail(self, slice: &JavaStr) -> ! {
        slice_error_fail(slice, self.start, slice.len())
    }

    #[inline]
    unsafe fn get_unchecked(self, slice: *const JavaStr) -> *const JavaStr {
        let len = unsafe { (*(slice as *const [u8])).len() };
        unsafe { (self.start..len).get_unchecked(slice) }
    }

    #[inline]
    unsafe fn get_unchecked_mut(self, slice: *mut JavaStr) -> *mut JavaStr {
        let len = unsafe { (*(slice as *mut [u8])).len() };
        unsafe { (self.start..len).get_unchecked_mut(slice) }
    }
}

#[inline]
fn into_slice_range(range: RangeInclusive<usize>) -> Range<usize> {
    let exclusive_end = *range.end() + 1;
    let start = match range.end_bound() {
        Bound::Excluded(..) => exclusive_end, // excluded
        Bound::Included(..) => *range.start(),
        Bound::Unbounded => unreachable!(),
    };
    start..exclusive_end
}

unsafe impl JavaStrSliceIndex for RangeInclusive<usize> {
    #[inline]
    fn check_bounds(&self, slice: &JavaStr) -> bool {
        *self.end() != usize::MAX && into_slice_range(self.clone()).check_bounds(slice)
    }

    #[inline]
    #[track_caller]
    fn check_bounds_fail(self, slice: &JavaStr) -> ! {
        if *self.end() == usize::MAX {
            str_end_index_overflow_fail()
        } else {
            into_slice_range(self).check_bounds_fail(slice)
        }
    }

    #[inline]
    unsafe fn get_unchecked(self, slice: *const JavaStr) -> *const JavaStr {
        into_slice_range(self).get_unchecked(slice)
    }

    #[inline]
    unsafe fn get_unchecked_mut(self, slice: *mut JavaStr) -> *mut JavaStr {
        into_slice_range(self).get_unchecked_mut(slice)
    }
}

unsafe impl JavaStrSliceIndex for RangeToInclusive<usize> {
    #[inline]
    fn check_bounds(&self, slice: &JavaStr) -> bool {
        (0..=self.end).check_bounds(slice)
    }

    #[inline]
    fn check_bounds_fail(self, slice: &JavaStr) -> ! {
        (0..=self.end).check_bounds_fail(slice)
    }

    #[inline]
    unsafe fn get_unchecked(self, slice: *const JavaStr) -> *const JavaStr {
        (0..=self.end).get_unchecked(slice)
    }

    #[inline]
    unsafe fn get_unchecked_mut(self, slice: *mut JavaStr) -> *mut JavaStr {
        (0..=self.end).get_unchecked_mut(slice)
    }
}
