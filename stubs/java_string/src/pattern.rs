use crate::{JavaCodePoint, JavaStr};

mod private_pattern {
    use crate::{JavaCodePoint, JavaStr};

    pub trait Sealed {}

    impl Sealed for char {}
    impl Sealed for JavaCodePoint {}
    impl Sealed for &str {}
    impl Sealed for &JavaStr {}
    impl<F> Sealed for F where F: FnMut(JavaCodePoint) -> bool {}
    impl Sealed for &[char] {}
    impl Sealed for &[JavaCodePoint] {}
    impl Sealed for &char {}
    impl Sealed for &JavaCodePoint {}
    impl Sealed for &&str {}
    impl Sealed for &&JavaStr {}
}

/// # Safety
///
/// Methods in this trait must only return indexes that are on char boundaries
pub unsafe trait JavaStrPattern: private_pattern::Sealed {
    fn prefix_len_in(&mut self, haystack: &JavaStr) -> Option<usize>;
    fn suffix_len_in(&mut self, haystack: &JavaStr) -> Option<usize>;
    fn find_in(&mut self, haystack: &JavaStr) -> Option<(usize, usize)>;
    fn rfind_in(&mut self, haystack: &JavaStr) -> Option<(usize, usize)>;
}

unsafe impl JavaStrPattern for char {
    #[inline]
    fn prefix_len_in(&mut self, haystack: &JavaStr) -> Option<usize> {
        let ch = haystack.chars().next()?;
        if ch == *self {
            Some(ch.len_utf8())
        } else {
            None
        }
    }

    #[inline]
    fn suffix_len_in(&mut self, haystack: &JavaStr) -> Option<usize> {
        let ch = haystack.chars().next_back()?;
        if ch == *self {
            Some(ch.len_utf8())
        } else {
            None
        }
    }

    #[inline]
    fn find_in(&mut self, haystack: &JavaStr) -> Option<(usize, usize)> {
        // VERIF MODEL NOTE: an ASCII needle is its own one-byte encoding (semantically identical fast path)
        if (*self as u32) < 0x80 {
            return find_byte(haystack.as_bytes(), *self as u8).map(|index| (index, 1));
        }
        let mut encoded = [0; 4];
        let encoded = self.encode_utf8(&mut encoded).as_bytes();
        find(haystack.as_bytes(), encoded).map(|index| (index, encoded.len()))
    }

    #[inline]
    fn rfind_in(&mut self, haystack: &JavaStr) -> Option<(usize, usize)> {
        if (*self as u32) < 0x80 {
            return rfind_byte(haystack.as_bytes(), *self as u8).map(|index| (index, 1));
        }
        let mut encoded = [0; 4];
        let encoded = self.encode_utf8(&mut encoded).as_bytes();
        rfind(haystack.as_bytes(), encoded).map(|index| (index, encoded.len()))
    }
}

unsafe impl JavaStrPattern for JavaCodePoint {
    #[inline]
    fn prefix_len_in(&mut self, haystack: &JavaStr) -> Option<usize> {
        let ch = haystack.chars().next()?;
        if ch == *self {
            Some(ch.len_utf8())
        } else {
            None
        }
    }

    #[inline]
    fn suffix_len_in(&mut self, haystack: &JavaStr) -> Option<usize> {
        let ch = haystack.chars().next_back()?;
        if ch == *self {
            Some(ch.len_utf8())
        } else {
            None
        }
    }

    #[inline]
    fn find_in(&mut self, haystack: &JavaStr) -> Option<(usize, usize)> {
        if self.as_u32() < 0x80 {
            return find_byte(haystack.as_bytes(), self.as_u32() as u8).map(|index| (index, 1));
        }
        let mut encoded = [0; 4];
        let encoded = self.encode_semi_utf8(&mut encoded);
        find(haystack.as_bytes(), encoded).map(|index| (index, encoded.len()))
    }

    #[inline]
    fn rfind_in(&mut self, haystack: &JavaStr) -> Option<(usize, usize)> {
        if self.as_u32() < 0x80 {
            return rfind_byte(haystack.as_bytes(), self.as_u32() as u8).map(|index| (index, 1));
        }
        let mut encoded = [0; 4];
        let encoded = self.encode_semi_utf8(&mut encoded);
        rfind(haystack.as_bytes(), encoded).map(|index| (index, encoded.len()))
    }
}

unsafe impl JavaStrPattern for &str {
    #[inline]
    fn prefix_len_in(&mut self, haystack: &JavaStr) -> Option<usize> {
        if haystack.as_bytes().starts_with(self.as_bytes()) {
            Some(self.len())
        } else {
            None
        }
    }

    #[inline]
    fn suffix_len_in(&mut self, haystack: &JavaStr) -> Option<usize> {
        if haystack.as_bytes().ends_with(self.as_bytes()) {
            Some(self.len())
        } else {
            None
        }
    }

    #[inline]
    fn find_in(&mut self, haystack: &JavaStr) -> Option<(usize, usize)> {
        find(haystack.as_bytes(), self.as_bytes()).map(|index| (index, self.len()))
    }

    #[inline]
    fn rfind_in(&mut self, haystack: &JavaStr) -> Option<(usize, usize)> {
        rfind(haystack.as_bytes(), self.as_bytes()).map(|index| (index, self.len()))
    }
}

unsafe impl JavaStrPattern for &JavaStr {
    #[inline]
    fn prefix_len_in(&mut self, haystack: &JavaStr) -> Option<usize> {
        if haystack.as_bytes().starts_with(self.as_bytes()) {
            Some(self.len())
        } else {
            None
        }
    }

    #[inline]
    fn suffix_len_in(&mut self, haystack: &JavaStr) -> Option<usize> {
        if haystack.as_bytes().ends_with(self.as_bytes()) {
            Some(self.len())
        } else {
            None
        }
    }

    #[inline]
    fn find_in(&mut self, haystack: &JavaStr) -> Option<(usize, usize)> {
        find(haystack.as_bytes(), self.as_bytes()).map(|index| (index, self.len()))
    }

    #[inline]
    fn rfind_in(&mut self, haystack: &JavaStr) -> Option<(usize, usize)> {
        rfind(haystack.as_bytes(), self.as_bytes()).map(|index| (index, self.len()))
    }
}

unsafe impl<F> JavaStrPattern for F
where
    F: FnMut(JavaCodePoint) -> bool,
{
    #[inline]
    fn prefix_len_in(&mut self, haystack: &JavaStr) -> Option<usize> {
        let ch = haystack.chars().next()?;
        if self(ch) {
            Some(ch.len_utf8())
        } else {
            None
        }
    }

    #[inline]
    fn suffix_len_in(&mut self, haystack: &JavaStr) -> Option<usize> {
        let ch = haystack.chars().next_back()?;
        if self(ch) {
            Some(ch.len_utf8())
        } else {
            None
        }
    }

    #[inline]
    fn find_in(&mut self, haystack: &JavaStr) -> Option<(usize, usize)> {
        haystack
            .char_indices()
            .find(|(_, ch)| self(*ch))
            .map(|(index, ch)| (index, ch.len_utf8()))
    }

    #[inline]
    fn rfind_in(&mut self, haystack: &JavaStr) -> Option<(usize, usize)> {
        haystack
            .char_indices()
            .rfind(|(_, ch)| self(*ch))
            .map(|(index, ch)| (index, ch.len_utf8()))
    }
}

unsafe impl JavaStrPattern for &[char] {
    #[inline]
    fn prefix_len_in(&mut self, haystack: &JavaStr) -> Option<usize> {
        let ch = haystack.chars().next()?;
        if self.iter().any(|c| ch == *c) {
            Some(ch.len_utf8())
        } else {
            None
        }
    }

    #[inline]
    fn suffix_len_in(&mut self, haystack: &JavaStr) -> Option<usize> {
        let ch = haystack.chars().next_back()?;
        if self.iter().any(|c| ch == *c) {
            Some(ch.len_utf8())
        } else {
            None
        }
    }

    #[inline]
    fn find_in(&mut self, haystack: &JavaStr) -> Option<(usize, usize)> {
        haystack
            .char_indices()
            .find(|(_, ch)| self.iter().any(|c| *ch == *c))
            .map(|(index, ch)| (index, ch.len_utf8()))
    }

    #[inline]
    fn rfind_in(&mut self, haystack: &JavaStr) -> Option<(usize, usize)> {
        haystack
            .char_indices()
            .rfind(|(_, ch)| self.iter().any(|c| *ch == *c))
            .map(|(index, ch)| (index, ch.len_utf8()))
    }
}

unsafe impl JavaStrPattern for &[JavaCodePoint] {
    #[inline]
    fn prefix_len_in(&mut self, haystack: &JavaStr) -> Option<usize> {
        let ch = haystack.chars().next()?;
        if self.contains(&ch) {
            Some(ch.len_utf8())
        } else {
            None
        }
    }

    #[inline]
    fn suffix_len_in(&mut self, haystack: &JavaStr) -> Option<usize> {
        let ch = haystack.chars().next_back()?;
        if self.contains(&ch) {
            Some(ch.len_utf8())
        } else {
            None
        }
    }

    #[inline]
    fn find_in(&mut self, haystack: &JavaStr) -> Option<(usize, usize)> {
        haystack
            .char_indices()
            .find(|(_, ch)| self.contains(ch))
            .map(|(index, ch)| (index, ch.len_utf8()))
    }

    #[inline]
    fn rfind_in(&mut self, haystack: &JavaStr) -> Option<(usize, usize)> {
        haystack
            .char_indices()
            .rfind(|(_, ch)| self.contains(ch))
            .map(|(index, ch)| (index, ch.len_utf8()))
    }
}

unsafe impl JavaStrPattern for &char {
    #[inline]
    fn prefix_len_in(&mut self, haystack: &JavaStr) -> Option<usize> {
        let mut ch = **self;
        ch.prefix_len_in(haystack)
    }

    #[inline]
    fn suffix_len_in(&mut self, haystack: &JavaStr) -> Option<usize> {
        let mut ch = **self;
        ch.suffix_len_in(haystack)
    }

    #[inline]
    fn find_in(&mut self, haystack: &JavaStr) -> Option<(usize, usize)> {
        let mut ch = **self;
        ch.find_in(haystack)
    }

    #[inline]
    fn rfind_in(&mut self, haystack: &JavaStr) -> Option<(usize, usize)> {
        let mut ch = **self;
        ch.rfind_in(haystack)
    }
}

unsafe impl JavaStrPattern for &JavaCodePoint {
    #[inline]
    fn prefix_len_in(&mut self, haystack: &JavaStr) -> Option<usize> {
        let mut ch = **self;
        ch.prefix_len_in(haystack)
    }

    #[inline]
    fn suffix_len_in(&mut self, haystack: &JavaStr) -> Option<usize> {
        let mut ch = **self;
        ch.suffix_len_in(haystack)
    }

    #[inline]
    fn find_in(&mut self, haystack: &JavaStr) -> Option<(usize, usize)> {
        let mut ch = **self;
        ch.find_in(haystack)
    }

    #[inline]
    fn rfind_in(&mut self, haystack: &JavaStr) -> Option<(usize, usize)> {
        let mut ch = **self;
        ch.rfind_in(haystack)
    }
}

unsafe impl JavaStrPattern for &&str {
    #[inline]
    fn prefix_len_in(&mut self, haystack: &JavaStr) -> Option<usize> {
        let mut str = **self;
        str.prefix_len_in(haystack)
    }

    #[inline]
    fn suffix_len_in(&mut self, haystack: &JavaStr) -> Option<usize> {
        let mut str = **self;
        str.suffix_len_in(haystack)
    }

    #[inline]
    fn find_in(&mut self, haystack: &JavaStr) -> Option<(usize, usize)> {
        let mut str = **self;
        str.find_in(haystack)
    }

    #[inline]
    fn rfind_in(&mut self, haystack: &JavaStr) -> Option<(usize, usize)> {
        let mut str = **self;
        str.rfind_in(haystack)
    }
}

unsafe impl JavaStrPattern for &&JavaStr {
    #[inline]
    fn prefix_len_in(&mut self, haystack: &JavaStr) -> Option<usize> {
        let mut str = **self;
        str.prefix_len_in(haystack)
    }

    #[inline]
    fn suffix_len_in(&mut self, haystack: &JavaStr) -> Option<usize> {
        let mut str = **self;
        str.suffix_len_in(haystack)
    }

    #[inline]
    fn find_in(&mut self, haystack: &JavaStr) -> Option<(usize, usize)> {
        let mut str = **self;
        str.find_in(haystack)
    }

    #[inline]
    fn rfind_in(&mut self, haystack: &JavaStr) -> Option<(usize, usize)> {
        let mut str = **self;
        str.rfind_in(haystack)
    }
}

// VERIF MODEL NOTE (/verif/DESIGN.md §4): `find`/`rfind` are semantically identical rewrites of the
// upstream `windows(n).position(|w| w == needle)` as plain index loops (no iterator adaptors,
// no memcmp), which is what makes symbolic execution of split/find/rsplit_once tractable.
#[inline]
fn find_byte(haystack: &[u8], needle: u8) -> Option<usize> {
    let mut i = 0;
    while i < haystack.len() {
        if haystack[i] == needle {
            return Some(i);
        }
        i += 1;
    }
    None
}

#[inline]
fn rfind_byte(haystack: &[u8], needle: u8) -> Option<usize> {
    let mut i = haystack.len();
    while i > 0 {
        i -= 1;
        if haystack[i] == needle {
            return Some(i);
        }
    }
    None
}

#[inline]
fn matches_at(haystack: &[u8], needle: &[u8], at: usize) -> bool {
    let mut j = 0;
    while j < needle.len() {
        if haystack[at + j] != needle[j] {
            return false;
        }
        j += 1;
    }
    true
}

#[inline]
fn find(haystack: &[u8], needle: &[u8]) -> Option<usize> {
    if needle.is_empty() {
        return Some(0);
    }
    if needle.len() > haystack.len() {
        return None;
    }
    let last = haystack.len() - needle.len();
    let mut i = 0;
    while i <= last {
        if matches_at(haystack, needle, i) {
            return Some(i);
        }
        i += 1;
    }
    None
}

#[inline]
fn rfind(haystack: &[u8], needle: &[u8]) -> Option<usize> {
    if needle.is_empty() {
        return Some(haystack.len());
    }
    if needle.len() > haystack.len() {
        return None;
    }
    let mut i = haystack.len() - needle.len() + 1;
    while i > 0 {
        i -= 1;
        if matches_at(haystack, needle, i) {
            return Some(i);
        }
    }
    None
}
