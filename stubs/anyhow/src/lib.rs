//! Verification MODEL of the `anyhow` crate (see /verif/DESIGN.md §4.1).
//!
//! `Error` is a zero-sized token: messages, context chains and backtraces are dropped, the
//! formatting arguments of `anyhow!`/`bail!`/`ensure!` are type-checked but never evaluated and
//! the closures given to `with_context` are never called. What survives is exactly whether a
//! computation returned `Ok` or `Err` – the only thing the checked properties speak about.
#![allow(clippy::all)]

use core::fmt::{self, Debug, Display};

pub type Result<T, E = Error> = core::result::Result<T, E>;

pub struct Error(());

impl Error {
	#[inline(always)]
	pub fn msg<M>(_message: M) -> Error where M: Display + Debug + Send + Sync + 'static { Error(()) }
	#[inline(always)]
	pub fn new<E>(_error: E) -> Error where E: std::error::Error + Send + Sync + 'static { Error(()) }
	#[inline(always)]
	pub fn context<C>(self, _context: C) -> Error where C: Display + Send + Sync + 'static { Error(()) }
	#[inline(always)]
	pub fn root_cause(&self) -> &(dyn std::error::Error + 'static) { &ModelError }
	#[doc(hidden)]
	#[inline(always)]
	pub fn __model() -> Error { Error(()) }
}

#[derive(Debug)]
struct ModelError;
impl Display for ModelError {
	fn fmt(&self, f: &mut fmt::Formatter<'_>) -> fmt::Result { f.write_str("anyhow model error") }
}
impl std::error::Error for ModelError {}

impl Debug for Error {
	fn fmt(&self, f: &mut fmt::Formatter<'_>) -> fmt::Result { f.write_str("anyhow model error") }
}
impl Display for Error {
	fn fmt(&self, f: &mut fmt::Formatter<'_>) -> fmt::Result { f.write_str("anyhow model error") }
}

impl<E> From<E> for Error where E: std::error::Error + Send + Sync + 'static {
	#[inline(always)]
	fn from(_error: E) -> Error { Error(()) }
}

impl From<Error> for Box<dyn std::error::Error + Send + Sync + 'static> {
	fn from(_: Error) -> Self { Box::new(ModelError) }
}
impl From<Error> for Box<dyn std::error::Error + 'static> {
	fn from(_: Error) -> Self { Box::new(ModelError) }
}

mod private {
	pub trait Sealed {}
	pub trait IntoModelError {}
	impl<E> IntoModelError for E where E: std::error::Error + Send + Sync + 'static {}
	impl IntoModelError for super::Error {}
}

pub trait Context<T, E>: private::Sealed {
	fn context<C>(self, context: C) -> Result<T, Error> where C: Display + Send + Sync + 'static;
	fn with_context<C, F>(self, f: F) -> Result<T, Error> where C: Display + Send + Sync + 'static, F: FnOnce() -> C;
}

impl<T, E> private::Sealed for core::result::Result<T, E> where E: private::IntoModelError {}
impl<T, E> Context<T, E> for core::result::Result<T, E> where E: private::IntoModelError {
	#[inline(always)]
	fn context<C>(self, _context: C) -> Result<T, Error> where C: Display + Send + Sync + 'static {
		match self { core::result::Result::Ok(t) => core::result::Result::Ok(t), core::result::Result::Err(_) => core::result::Result::Err(Error(())) }
	}
	#[inline(always)]
	fn with_context<C, F>(self, _f: F) -> Result<T, Error> where C: Display + Send + Sync + 'static, F: FnOnce() -> C {
		match self { core::result::Result::Ok(t) => core::result::Result::Ok(t), core::result::Result::Err(_) => core::result::Result::Err(Error(())) }
	}
}

impl<T> private::Sealed for Option<T> {}
impl<T> Context<T, core::convert::Infallible> for Option<T> {
	#[inline(always)]
	fn context<C>(self, _context: C) -> Result<T, Error> where C: Display + Send + Sync + 'static {
		match self { Some(t) => core::result::Result::Ok(t), None => core::result::Result::Err(Error(())) }
	}
	#[inline(always)]
	fn with_context<C, F>(self, _f: F) -> Result<T, Error> where C: Display + Send + Sync + 'static, F: FnOnce() -> C {
		match self { Some(t) => core::result::Result::Ok(t), None => core::result::Result::Err(Error(())) }
	}
}

#[allow(non_snake_case)]
#[inline(always)]
pub fn Ok<T>(t: T) -> Result<T> { Result::Ok(t) }

/// The arguments are type-checked inside a closure that is never called.
#[macro_export]
macro_rules! anyhow {
	($($arg:tt)*) => {{
		let _ = || { let _ = ::core::format_args!($($arg)*); };
		$crate::Error::__model()
	}};
}
#[macro_export]
macro_rules! format_err {
	($($arg:tt)*) => { $crate::anyhow!($($arg)*) };
}
#[macro_export]
macro_rules! bail {
	($($arg:tt)*) => { return ::core::result::Result::Err($crate::anyhow!($($arg)*)) };
}
#[macro_export]
macro_rules! ensure {
	($cond:expr $(,)?) => { if !$cond { return ::core::result::Result::Err($crate::Error::__model()); } };
	($cond:expr, $($arg:tt)*) => { if !$cond { return ::core::result::Result::Err($crate::anyhow!($($arg)*)); } };
}
