//! Verification MODEL of the `indexmap` crate (see /verif/DESIGN.md §4.3).
//!
//! `IndexMap<K, V>` is an insertion-ordered sequence of `(K, V)`; lookups are a linear scan using
//! [`Equivalent`]. Hashes are never computed. This is observationally equal to the real crate
//! whenever `k1 == k2` implies `hash(k1) == hash(k2)` for every key/query type involved.
#![allow(clippy::all)]

use core::borrow::Borrow;
use core::fmt::{self, Debug};
use core::marker::PhantomData;
use core::ops::{Index, IndexMut};

pub trait Equivalent<K: ?Sized> {
	fn equivalent(&self, key: &K) -> bool;
}
impl<Q: ?Sized, K: ?Sized> Equivalent<K> for Q where Q: Eq, K: Borrow<Q> {
	#[inline]
	fn equivalent(&self, key: &K) -> bool { PartialEq::eq(self, key.borrow()) }
}

// ---------------------------------------------------------------------------------------------
// Storage. Natively a plain `Vec`; under Kani a fixed array of `Option<T>` slots (capacity 4):
// a heap `Vec` buffer is an untyped byte array for CBMC, and every access at a symbolic index
// (the length of a result map depends on the data) is lowered to byte-level muxes – 12 M SAT
// variables for a one-entry map. A typed array of four slots is a handful of ite-muxes. A fifth
// entry is a verification failure ("capacity exceeded"), never a silently dropped case.
// ---------------------------------------------------------------------------------------------
#[cfg(not(kani))]
mod store {
	pub struct Store<T>(Vec<T>);
	pub type StoreIter<'a, T> = core::slice::Iter<'a, T>;
	pub type StoreIterMut<'a, T> = core::slice::IterMut<'a, T>;
	pub type StoreIntoIter<T> = std::vec::IntoIter<T>;
	impl<T> Store<T> {
		#[inline] pub fn new() -> Self { Store(Vec::new()) }
		#[inline] pub fn with_capacity(n: usize) -> Self { Store(Vec::with_capacity(n)) }
		#[inline] pub fn len(&self) -> usize { self.0.len() }
		#[inline] pub fn push(&mut self, v: T) { self.0.push(v) }
		#[inline] pub fn pop(&mut self) -> Option<T> { self.0.pop() }
		#[inline] pub fn at(&self, i: usize) -> &T { &self.0[i] }
		#[inline] pub fn at_mut(&mut self, i: usize) -> &mut T { &mut self.0[i] }
		#[inline] pub fn get(&self, i: usize) -> Option<&T> { self.0.get(i) }
		#[inline] pub fn get_mut(&mut self, i: usize) -> Option<&mut T> { self.0.get_mut(i) }
		#[inline] pub fn clear(&mut self) { self.0.clear() }
		#[inline] pub fn swap_remove(&mut self, i: usize) -> T { self.0.swap_remove(i) }
		#[inline] pub fn remove(&mut self, i: usize) -> T { self.0.remove(i) }
		#[inline] pub fn retain_mut<F: FnMut(&mut T) -> bool>(&mut self, f: F) { self.0.retain_mut(f) }
		#[inline] pub fn sort_by<F: FnMut(&T, &T) -> core::cmp::Ordering>(&mut self, f: F) { self.0.sort_by(f) }
		#[inline] pub fn reserve(&mut self, n: usize) { self.0.reserve(n) }
		#[inline] pub fn iter(&self) -> StoreIter<'_, T> { self.0.iter() }
		#[inline] pub fn iter_mut(&mut self) -> StoreIterMut<'_, T> { self.0.iter_mut() }
		#[inline] pub fn into_iter(self) -> StoreIntoIter<T> { self.0.into_iter() }
		#[inline] pub fn truncate(&mut self, n: usize) { self.0.truncate(n) }
	}
	impl<T: Clone> Clone for Store<T> { #[inline] fn clone(&self) -> Self { Store(self.0.clone()) } }
}

#[cfg(kani)]
mod store {
	pub const CAP: usize = 4;
	pub struct Store<T> { slots: [Option<T>; CAP], len: usize }
	pub struct StoreIter<'a, T> { s: &'a Store<T>, front: usize, back: usize }
	pub struct StoreIterMut<'a, T> { it: core::slice::IterMut<'a, Option<T>> }
	pub struct StoreIntoIter<T> { s: Store<T>, front: usize, back: usize }
	impl<T> Store<T> {
		#[inline] pub fn new() -> Self { Store { slots: [const { None }; CAP], len: 0 } }
		#[inline] pub fn with_capacity(_n: usize) -> Self { Self::new() }
		#[inline] pub fn len(&self) -> usize { self.len }
		#[inline] pub fn push(&mut self, v: T) {
			assert!(self.len < CAP, "VERIF-MODEL: indexmap model capacity (4 entries) exceeded");
			self.slots[self.len] = Some(v);
			self.len += 1;
		}
		#[inline] pub fn pop(&mut self) -> Option<T> { if self.len == 0 { None } else { self.len -= 1; self.slots[self.len].take() } }
		#[inline] pub fn at(&self, i: usize) -> &T { assert!(i < self.len, "index out of bounds"); match &self.slots[i] { Some(v) => v, None => unreachable!() } }
		#[inline] pub fn at_mut(&mut self, i: usize) -> &mut T { assert!(i < self.len, "index out of bounds"); match &mut self.slots[i] { Some(v) => v, None => unreachable!() } }
		#[inline] pub fn get(&self, i: usize) -> Option<&T> { if i < self.len { self.slots[i].as_ref() } else { None } }
		#[inline] pub fn get_mut(&mut self, i: usize) -> Option<&mut T> { if i < self.len { self.slots[i].as_mut() } else { None } }
		#[inline] pub fn clear(&mut self) { while self.len > 0 { self.len -= 1; self.slots[self.len] = None; } }
		#[inline] pub fn truncate(&mut self, n: usize) { while self.len > n { self.len -= 1; self.slots[self.len] = None; } }
		#[inline] pub fn swap_remove(&mut self, i: usize) -> T {
			assert!(i < self.len, "swap_remove index out of bounds");
			let last = self.len - 1;
			let v = self.slots[i].take();
			if i != last { self.slots[i] = self.slots[last].take(); }
			self.len = last;
			match v { Some(v) => v, None => unreachable!() }
		}
		#[inline] pub fn remove(&mut self, i: usize) -> T {
			assert!(i < self.len, "remove index out of bounds");
			let v = self.slots[i].take();
			let mut j = i;
			while j + 1 < self.len { self.slots[j] = self.slots[j + 1].take(); j += 1; }
			self.len -= 1;
			match v { Some(v) => v, None => unreachable!() }
		}
		#[inline] pub fn retain_mut<F: FnMut(&mut T) -> bool>(&mut self, mut f: F) {
			let mut w = 0;
			let mut r = 0;
			while r < self.len {
				let keep = match &mut self.slots[r] { Some(v) => f(v), None => unreachable!() };
				if keep { if w != r { self.slots[w] = self.slots[r].take(); } w += 1; } else { self.slots[r] = None; }
				r += 1;
			}
			self.len = w;
		}
		/// Stable insertion sort.
		#[inline] pub fn sort_by<F: FnMut(&T, &T) -> core::cmp::Ordering>(&mut self, mut f: F) {
			let mut i = 1;
			while i < self.len {
				let mut j = i;
				while j > 0 {
					let gt = match (&self.slots[j - 1], &self.slots[j]) { (Some(a), Some(b)) => f(a, b) == core::cmp::Ordering::Greater, _ => unreachable!() };
					if !gt { break; }
					self.slots.swap(j - 1, j);
					j -= 1;
				}
				i += 1;
			}
		}
		#[inline] pub fn reserve(&mut self, _n: usize) {}
		#[inline] pub fn iter(&self) -> StoreIter<'_, T> { StoreIter { s: self, front: 0, back: self.len } }
		#[inline] pub fn iter_mut(&mut self) -> StoreIterMut<'_, T> { let n = self.len; StoreIterMut { it: self.slots[..n].iter_mut() } }
		#[inline] pub fn into_iter(self) -> StoreIntoIter<T> { let back = self.len; StoreIntoIter { s: self, front: 0, back } }
	}
	impl<T: Clone> Clone for Store<T> {
		#[inline] fn clone(&self) -> Self {
			let mut n = Store::new();
			let mut i = 0;
			while i < self.len { n.push(self.at(i).clone()); i += 1; }
			n
		}
	}
	impl<'a, T> Clone for StoreIter<'a, T> { #[inline] fn clone(&self) -> Self { StoreIter { s: self.s, front: self.front, back: self.back } } }
	impl<'a, T> Iterator for StoreIter<'a, T> {
		type Item = &'a T;
		#[inline] fn next(&mut self) -> Option<&'a T> { if self.front < self.back { let r = self.s.slots[self.front].as_ref(); self.front += 1; r } else { None } }
		#[inline] fn size_hint(&self) -> (usize, Option<usize>) { let n = self.back - self.front; (n, Some(n)) }
	}
	impl<'a, T> DoubleEndedIterator for StoreIter<'a, T> {
		#[inline] fn next_back(&mut self) -> Option<&'a T> { if self.front < self.back { self.back -= 1; self.s.slots[self.back].as_ref() } else { None } }
	}
	impl<'a, T> ExactSizeIterator for StoreIter<'a, T> {}
	impl<'a, T> Iterator for StoreIterMut<'a, T> {
		type Item = &'a mut T;
		#[inline] fn next(&mut self) -> Option<&'a mut T> { match self.it.next() { Some(o) => o.as_mut(), None => None } }
		#[inline] fn size_hint(&self) -> (usize, Option<usize>) { self.it.size_hint() }
	}
	impl<'a, T> DoubleEndedIterator for StoreIterMut<'a, T> {
		#[inline] fn next_back(&mut self) -> Option<&'a mut T> { match self.it.next_back() { Some(o) => o.as_mut(), None => None } }
	}
	impl<'a, T> ExactSizeIterator for StoreIterMut<'a, T> {}
	impl<T> Iterator for StoreIntoIter<T> {
		type Item = T;
		#[inline] fn next(&mut self) -> Option<T> { if self.front < self.back { let r = self.s.slots[self.front].take(); self.front += 1; r } else { None } }
		#[inline] fn size_hint(&self) -> (usize, Option<usize>) { let n = self.back - self.front; (n, Some(n)) }
	}
	impl<T> DoubleEndedIterator for StoreIntoIter<T> {
		#[inline] fn next_back(&mut self) -> Option<T> { if self.front < self.back { self.back -= 1; self.s.slots[self.back].take() } else { None } }
	}
	impl<T> ExactSizeIterator for StoreIntoIter<T> {}
}
use store::{Store, StoreIntoIter, StoreIter, StoreIterMut};

pub mod map {
	pub use super::{IndexMap, Entry, OccupiedEntry, VacantEntry, Iter, IterMut, IntoIter};
}
pub mod set {
	pub use super::IndexSet;
}

pub struct IndexMap<K, V, S = ()> {
	entries: Store<(K, V)>,
	_s: PhantomData<S>,
}

pub struct Iter<'a, K, V>(StoreIter<'a, (K, V)>);
pub struct IterMut<'a, K, V>(StoreIterMut<'a, (K, V)>);
pub struct IntoIter<K, V>(StoreIntoIter<(K, V)>);
impl<'a, K, V> Clone for Iter<'a, K, V> { #[inline] fn clone(&self) -> Self { Iter(self.0.clone()) } }
impl<'a, K, V> Iterator for Iter<'a, K, V> {
	type Item = (&'a K, &'a V);
	#[inline] fn next(&mut self) -> Option<Self::Item> { match self.0.next() { Some(e) => Some((&e.0, &e.1)), None => None } }
	#[inline] fn size_hint(&self) -> (usize, Option<usize>) { self.0.size_hint() }
}
impl<'a, K, V> DoubleEndedIterator for Iter<'a, K, V> {
	#[inline] fn next_back(&mut self) -> Option<Self::Item> { match self.0.next_back() { Some(e) => Some((&e.0, &e.1)), None => None } }
}
impl<'a, K, V> ExactSizeIterator for Iter<'a, K, V> {}
impl<'a, K, V> Iterator for IterMut<'a, K, V> {
	type Item = (&'a K, &'a mut V);
	#[inline] fn next(&mut self) -> Option<Self::Item> { match self.0.next() { Some(e) => Some((&e.0, &mut e.1)), None => None } }
	#[inline] fn size_hint(&self) -> (usize, Option<usize>) { self.0.size_hint() }
}
impl<'a, K, V> DoubleEndedIterator for IterMut<'a, K, V> {
	#[inline] fn next_back(&mut self) -> Option<Self::Item> { match self.0.next_back() { Some(e) => Some((&e.0, &mut e.1)), None => None } }
}
impl<'a, K, V> ExactSizeIterator for IterMut<'a, K, V> {}
impl<K, V> Iterator for IntoIter<K, V> {
	type Item = (K, V);
	#[inline] fn next(&mut self) -> Option<(K, V)> { self.0.next() }
	#[inline] fn size_hint(&self) -> (usize, Option<usize>) { self.0.size_hint() }
}
impl<K, V> DoubleEndedIterator for IntoIter<K, V> { #[inline] fn next_back(&mut self) -> Option<(K, V)> { self.0.next_back() } }
impl<K, V> ExactSizeIterator for IntoIter<K, V> {}

impl<K, V, S> IndexMap<K, V, S> {
	#[inline] pub fn len(&self) -> usize { self.entries.len() }
	#[inline] pub fn is_empty(&self) -> bool { self.entries.len() == 0 }
	#[inline] pub fn iter(&self) -> Iter<'_, K, V> { Iter(self.entries.iter()) }
	#[inline] pub fn iter_mut(&mut self) -> IterMut<'_, K, V> { IterMut(self.entries.iter_mut()) }
	#[inline] pub fn keys(&self) -> impl DoubleEndedIterator<Item = &K> + ExactSizeIterator + Clone + '_ { self.iter().map(|(k, _)| k) }
	#[inline] pub fn values(&self) -> impl DoubleEndedIterator<Item = &V> + ExactSizeIterator + Clone + '_ { self.iter().map(|(_, v)| v) }
	#[inline] pub fn values_mut(&mut self) -> impl DoubleEndedIterator<Item = &mut V> + ExactSizeIterator + '_ { self.iter_mut().map(|(_, v)| v) }
	#[inline] pub fn into_keys(self) -> impl DoubleEndedIterator<Item = K> + ExactSizeIterator { self.entries.into_iter().map(|(k, _)| k) }
	#[inline] pub fn into_values(self) -> impl DoubleEndedIterator<Item = V> + ExactSizeIterator { self.entries.into_iter().map(|(_, v)| v) }
	#[inline] pub fn clear(&mut self) { self.entries.clear() }
	#[inline] pub fn get_index(&self, index: usize) -> Option<(&K, &V)> { match self.entries.get(index) { Some(e) => Some((&e.0, &e.1)), None => None } }
	#[inline] pub fn get_index_mut(&mut self, index: usize) -> Option<(&K, &mut V)> { match self.entries.get_mut(index) { Some(e) => Some((&e.0, &mut e.1)), None => None } }
	#[inline] pub fn first(&self) -> Option<(&K, &V)> { self.get_index(0) }
	#[inline] pub fn last(&self) -> Option<(&K, &V)> { let n = self.entries.len(); if n == 0 { None } else { self.get_index(n - 1) } }
	#[inline] pub fn first_mut(&mut self) -> Option<(&K, &mut V)> { self.get_index_mut(0) }
	#[inline] pub fn last_mut(&mut self) -> Option<(&K, &mut V)> { let n = self.entries.len(); if n == 0 { None } else { self.get_index_mut(n - 1) } }
	#[inline] pub fn pop(&mut self) -> Option<(K, V)> { self.entries.pop() }
	#[inline] pub fn retain<F>(&mut self, mut keep: F) where F: FnMut(&K, &mut V) -> bool { self.entries.retain_mut(|e| keep(&e.0, &mut e.1)) }
	#[inline] pub fn reserve(&mut self, additional: usize) { self.entries.reserve(additional) }
	#[inline] pub fn truncate(&mut self, len: usize) { self.entries.truncate(len) }
	#[inline] pub fn sort_keys(&mut self) where K: Ord { self.entries.sort_by(|a, b| a.0.cmp(&b.0)) }
	#[inline] pub fn sort_by<F>(&mut self, mut cmp: F) where F: FnMut(&K, &V, &K, &V) -> core::cmp::Ordering { self.entries.sort_by(|a, b| cmp(&a.0, &a.1, &b.0, &b.1)) }
	#[inline] pub fn sort_unstable_keys(&mut self) where K: Ord { self.entries.sort_by(|a, b| a.0.cmp(&b.0)) }
	#[inline] pub fn swap_remove_index(&mut self, index: usize) -> Option<(K, V)> { if index < self.entries.len() { Some(self.entries.swap_remove(index)) } else { None } }
	#[inline] pub fn shift_remove_index(&mut self, index: usize) -> Option<(K, V)> { if index < self.entries.len() { Some(self.entries.remove(index)) } else { None } }
}

impl<K, V> IndexMap<K, V> {
	#[inline] pub fn new() -> Self { IndexMap { entries: Store::new(), _s: PhantomData } }
	#[inline] pub fn with_capacity(n: usize) -> Self { IndexMap { entries: Store::with_capacity(n), _s: PhantomData } }
}

// NOTE: every lookup-based operation acts *inside* the scan loop, at the loop counter. After
// unrolling the counter is a constant in each iteration, so the symbolic executor sees accesses
// at constant indices instead of one access at a symbolic index.
impl<K, V, S> IndexMap<K, V, S> {
	#[inline]
	pub fn get_index_of<Q>(&self, key: &Q) -> Option<usize> where Q: ?Sized + Equivalent<K> {
		let mut i = 0;
		while i < self.entries.len() {
			if key.equivalent(&self.entries.at(i).0) { return Some(i); }
			i += 1;
		}
		None
	}
	#[inline] pub fn contains_key<Q>(&self, key: &Q) -> bool where Q: ?Sized + Equivalent<K> { self.get_index_of(key).is_some() }
	#[inline] pub fn get<Q>(&self, key: &Q) -> Option<&V> where Q: ?Sized + Equivalent<K> {
		let mut i = 0;
		while i < self.entries.len() {
			let e = self.entries.at(i);
			if key.equivalent(&e.0) { return Some(&e.1); }
			i += 1;
		}
		None
	}
	#[inline] pub fn get_key_value<Q>(&self, key: &Q) -> Option<(&K, &V)> where Q: ?Sized + Equivalent<K> {
		let mut i = 0;
		while i < self.entries.len() {
			let e = self.entries.at(i);
			if key.equivalent(&e.0) { return Some((&e.0, &e.1)); }
			i += 1;
		}
		None
	}
	#[inline] pub fn get_full<Q>(&self, key: &Q) -> Option<(usize, &K, &V)> where Q: ?Sized + Equivalent<K> {
		let mut i = 0;
		while i < self.entries.len() {
			let e = self.entries.at(i);
			if key.equivalent(&e.0) { return Some((i, &e.0, &e.1)); }
			i += 1;
		}
		None
	}
	#[inline] pub fn get_mut<Q>(&mut self, key: &Q) -> Option<&mut V> where Q: ?Sized + Equivalent<K> {
		let mut i = 0;
		while i < self.entries.len() {
			if key.equivalent(&self.entries.at(i).0) { return Some(&mut self.entries.at_mut(i).1); }
			i += 1;
		}
		None
	}
	#[inline] pub fn swap_remove_entry<Q>(&mut self, key: &Q) -> Option<(K, V)> where Q: ?Sized + Equivalent<K> {
		let mut i = 0;
		while i < self.entries.len() {
			if key.equivalent(&self.entries.at(i).0) { return Some(self.entries.swap_remove(i)); }
			i += 1;
		}
		None
	}
	#[inline] pub fn swap_remove<Q>(&mut self, key: &Q) -> Option<V> where Q: ?Sized + Equivalent<K> {
		match self.swap_remove_entry(key) { Some((_, v)) => Some(v), None => None }
	}
	#[inline] pub fn shift_remove_entry<Q>(&mut self, key: &Q) -> Option<(K, V)> where Q: ?Sized + Equivalent<K> {
		let mut i = 0;
		while i < self.entries.len() {
			if key.equivalent(&self.entries.at(i).0) { return Some(self.entries.remove(i)); }
			i += 1;
		}
		None
	}
	#[inline] pub fn shift_remove<Q>(&mut self, key: &Q) -> Option<V> where Q: ?Sized + Equivalent<K> {
		match self.shift_remove_entry(key) { Some((_, v)) => Some(v), None => None }
	}
	#[deprecated] #[inline] pub fn remove<Q>(&mut self, key: &Q) -> Option<V> where Q: ?Sized + Equivalent<K> { self.swap_remove(key) }
}

impl<K: Eq, V, S> IndexMap<K, V, S> {
	#[inline]
	pub fn insert_full(&mut self, key: K, value: V) -> (usize, Option<V>) {
		let mut i = 0;
		while i < self.entries.len() {
			if self.entries.at(i).0 == key { return (i, Some(core::mem::replace(&mut self.entries.at_mut(i).1, value))); }
			i += 1;
		}
		self.entries.push((key, value));
		(self.entries.len() - 1, None)
	}
	#[inline] pub fn insert(&mut self, key: K, value: V) -> Option<V> { self.insert_full(key, value).1 }
	#[inline]
	pub fn entry(&mut self, key: K) -> Entry<'_, K, V> {
		let mut index = 0;
		while index < self.entries.len() {
			if self.entries.at(index).0 == key { return Entry::Occupied(OccupiedEntry { entries: &mut self.entries, index, _key: key }); }
			index += 1;
		}
		Entry::Vacant(VacantEntry { entries: &mut self.entries, key })
	}
}

pub enum Entry<'a, K, V> {
	Occupied(OccupiedEntry<'a, K, V>),
	Vacant(VacantEntry<'a, K, V>),
}
pub struct OccupiedEntry<'a, K, V> { entries: &'a mut Store<(K, V)>, index: usize, _key: K }
pub struct VacantEntry<'a, K, V> { entries: &'a mut Store<(K, V)>, key: K }

impl<'a, K, V> Entry<'a, K, V> {
	#[inline] pub fn or_insert(self, default: V) -> &'a mut V { match self { Entry::Occupied(e) => e.into_mut(), Entry::Vacant(e) => e.insert(default) } }
	#[inline] pub fn or_insert_with<F: FnOnce() -> V>(self, f: F) -> &'a mut V { match self { Entry::Occupied(e) => e.into_mut(), Entry::Vacant(e) => e.insert(f()) } }
	#[inline] pub fn or_default(self) -> &'a mut V where V: Default { match self { Entry::Occupied(e) => e.into_mut(), Entry::Vacant(e) => e.insert(V::default()) } }
	#[inline] pub fn key(&self) -> &K { match self { Entry::Occupied(e) => e.key(), Entry::Vacant(e) => e.key() } }
	#[inline] pub fn index(&self) -> usize { match self { Entry::Occupied(e) => e.index(), Entry::Vacant(e) => e.index() } }
	#[inline] pub fn and_modify<F: FnOnce(&mut V)>(mut self, f: F) -> Self { if let Entry::Occupied(e) = &mut self { f(e.get_mut()); } self }
}
impl<'a, K, V> OccupiedEntry<'a, K, V> {
	#[inline] pub fn key(&self) -> &K { &self.entries.at(self.index).0 }
	#[inline] pub fn index(&self) -> usize { self.index }
	#[inline] pub fn get(&self) -> &V { &self.entries.at(self.index).1 }
	#[inline] pub fn get_mut(&mut self) -> &mut V { &mut self.entries.at_mut(self.index).1 }
	#[inline] pub fn into_mut(self) -> &'a mut V { &mut self.entries.at_mut(self.index).1 }
	#[inline] pub fn insert(&mut self, value: V) -> V { core::mem::replace(&mut self.entries.at_mut(self.index).1, value) }
	#[inline] pub fn swap_remove(self) -> V { self.entries.swap_remove(self.index).1 }
	#[inline] pub fn shift_remove(self) -> V { self.entries.remove(self.index).1 }
	#[inline] pub fn swap_remove_entry(self) -> (K, V) { self.entries.swap_remove(self.index) }
	#[inline] pub fn shift_remove_entry(self) -> (K, V) { self.entries.remove(self.index) }
}
impl<'a, K, V> VacantEntry<'a, K, V> {
	#[inline] pub fn key(&self) -> &K { &self.key }
	#[inline] pub fn into_key(self) -> K { self.key }
	#[inline] pub fn index(&self) -> usize { self.entries.len() }
	#[inline] pub fn insert(self, value: V) -> &'a mut V {
		self.entries.push((self.key, value));
		let n = self.entries.len() - 1;
		&mut self.entries.at_mut(n).1
	}
}
impl<K: Debug, V: Debug> Debug for Entry<'_, K, V> {
	fn fmt(&self, f: &mut fmt::Formatter<'_>) -> fmt::Result { f.write_str("Entry") }
}
impl<K: Debug, V: Debug> Debug for OccupiedEntry<'_, K, V> {
	fn fmt(&self, f: &mut fmt::Formatter<'_>) -> fmt::Result { f.write_str("OccupiedEntry") }
}
impl<K: Debug, V: Debug> Debug for VacantEntry<'_, K, V> {
	fn fmt(&self, f: &mut fmt::Formatter<'_>) -> fmt::Result { f.write_str("VacantEntry") }
}

impl<K, V, S> Default for IndexMap<K, V, S> {
	#[inline] fn default() -> Self { IndexMap { entries: Store::new(), _s: PhantomData } }
}
impl<K: Clone, V: Clone, S> Clone for IndexMap<K, V, S> {
	#[inline] fn clone(&self) -> Self { IndexMap { entries: self.entries.clone(), _s: PhantomData } }
}
impl<K: Debug, V: Debug, S> Debug for IndexMap<K, V, S> {
	fn fmt(&self, f: &mut fmt::Formatter<'_>) -> fmt::Result { f.debug_map().entries(self.iter()).finish() }
}
/// Like the real crate: equal iff same length and every key of `self` maps to an equal value in `other` (order-insensitive).
impl<K: Eq, V1, V2, S1, S2> PartialEq<IndexMap<K, V2, S2>> for IndexMap<K, V1, S1> where V1: PartialEq<V2> {
	fn eq(&self, other: &IndexMap<K, V2, S2>) -> bool {
		if self.len() != other.len() { return false; }
		self.iter().all(|(k, v)| other.get(k).map_or(false, |w| *v == *w))
	}
}
impl<K: Eq, V: Eq, S> Eq for IndexMap<K, V, S> {}

impl<K: Eq, V, S> Extend<(K, V)> for IndexMap<K, V, S> {
	#[inline] fn extend<I: IntoIterator<Item = (K, V)>>(&mut self, iter: I) { for (k, v) in iter { self.insert(k, v); } }
}
impl<K: Eq, V, S> FromIterator<(K, V)> for IndexMap<K, V, S> {
	#[inline] fn from_iter<I: IntoIterator<Item = (K, V)>>(iter: I) -> Self { let mut m = IndexMap::default(); m.extend(iter); m }
}
impl<K: Eq, V, const N: usize> From<[(K, V); N]> for IndexMap<K, V> {
	fn from(arr: [(K, V); N]) -> Self { arr.into_iter().collect() }
}
impl<K, V, S> IntoIterator for IndexMap<K, V, S> {
	type Item = (K, V);
	type IntoIter = IntoIter<K, V>;
	#[inline] fn into_iter(self) -> Self::IntoIter { IntoIter(self.entries.into_iter()) }
}
impl<'a, K, V, S> IntoIterator for &'a IndexMap<K, V, S> {
	type Item = (&'a K, &'a V);
	type IntoIter = Iter<'a, K, V>;
	#[inline] fn into_iter(self) -> Self::IntoIter { self.iter() }
}
impl<'a, K, V, S> IntoIterator for &'a mut IndexMap<K, V, S> {
	type Item = (&'a K, &'a mut V);
	type IntoIter = IterMut<'a, K, V>;
	#[inline] fn into_iter(self) -> Self::IntoIter { self.iter_mut() }
}
impl<K, V, Q: ?Sized, S> Index<&Q> for IndexMap<K, V, S> where Q: Equivalent<K> {
	type Output = V;
	fn index(&self, key: &Q) -> &V { self.get(key).expect("IndexMap: key not found") }
}
impl<K, V, Q: ?Sized, S> IndexMut<&Q> for IndexMap<K, V, S> where Q: Equivalent<K> {
	fn index_mut(&mut self, key: &Q) -> &mut V { self.get_mut(key).expect("IndexMap: key not found") }
}
impl<K, V, S> Index<usize> for IndexMap<K, V, S> {
	type Output = V;
	fn index(&self, index: usize) -> &V { &self.entries.at(index).1 }
}
impl<K, V, S> IndexMut<usize> for IndexMap<K, V, S> {
	fn index_mut(&mut self, index: usize) -> &mut V { &mut self.entries.at_mut(index).1 }
}

// ---------------------------------------------------------------------------------------------

pub struct IndexSet<T, S = ()> {
	entries: Store<T>,
	_s: PhantomData<S>,
}
impl<T> IndexSet<T> {
	#[inline] pub fn new() -> Self { IndexSet { entries: Store::new(), _s: PhantomData } }
	#[inline] pub fn with_capacity(n: usize) -> Self { IndexSet { entries: Store::with_capacity(n), _s: PhantomData } }
}
impl<T, S> IndexSet<T, S> {
	#[inline] pub fn len(&self) -> usize { self.entries.len() }
	#[inline] pub fn is_empty(&self) -> bool { self.entries.len() == 0 }
	#[inline] pub fn iter(&self) -> StoreIter<'_, T> { self.entries.iter() }
	#[inline] pub fn get_index(&self, index: usize) -> Option<&T> { self.entries.get(index) }
	#[inline] pub fn first(&self) -> Option<&T> { self.entries.get(0) }
	#[inline] pub fn last(&self) -> Option<&T> { let n = self.entries.len(); if n == 0 { None } else { self.entries.get(n - 1) } }
	#[inline] pub fn pop(&mut self) -> Option<T> { self.entries.pop() }
	#[inline] pub fn clear(&mut self) { self.entries.clear() }
	#[inline] pub fn retain<F>(&mut self, mut keep: F) where F: FnMut(&T) -> bool { self.entries.retain_mut(|e| keep(e)) }
	#[inline] pub fn sort(&mut self) where T: Ord { self.entries.sort_by(|a, b| a.cmp(b)) }
	#[inline]
	pub fn get_index_of<Q>(&self, value: &Q) -> Option<usize> where Q: ?Sized + Equivalent<T> {
		let mut i = 0;
		while i < self.entries.len() {
			if value.equivalent(self.entries.at(i)) { return Some(i); }
			i += 1;
		}
		None
	}
	#[inline] pub fn contains<Q>(&self, value: &Q) -> bool where Q: ?Sized + Equivalent<T> { self.get_index_of(value).is_some() }
	#[inline] pub fn get<Q>(&self, value: &Q) -> Option<&T> where Q: ?Sized + Equivalent<T> {
		let mut i = 0;
		while i < self.entries.len() {
			let e = self.entries.at(i);
			if value.equivalent(e) { return Some(e); }
			i += 1;
		}
		None
	}
	#[inline] pub fn get_full<Q>(&self, value: &Q) -> Option<(usize, &T)> where Q: ?Sized + Equivalent<T> {
		let mut i = 0;
		while i < self.entries.len() {
			let e = self.entries.at(i);
			if value.equivalent(e) { return Some((i, e)); }
			i += 1;
		}
		None
	}
	#[inline] pub fn swap_take<Q>(&mut self, value: &Q) -> Option<T> where Q: ?Sized + Equivalent<T> {
		let mut i = 0;
		while i < self.entries.len() {
			if value.equivalent(self.entries.at(i)) { return Some(self.entries.swap_remove(i)); }
			i += 1;
		}
		None
	}
	#[inline] pub fn shift_take<Q>(&mut self, value: &Q) -> Option<T> where Q: ?Sized + Equivalent<T> {
		let mut i = 0;
		while i < self.entries.len() {
			if value.equivalent(self.entries.at(i)) { return Some(self.entries.remove(i)); }
			i += 1;
		}
		None
	}
	#[inline] pub fn swap_remove<Q>(&mut self, value: &Q) -> bool where Q: ?Sized + Equivalent<T> { self.swap_take(value).is_some() }
	#[inline] pub fn shift_remove<Q>(&mut self, value: &Q) -> bool where Q: ?Sized + Equivalent<T> { self.shift_take(value).is_some() }
}
impl<T: Eq, S> IndexSet<T, S> {
	#[inline]
	pub fn insert_full(&mut self, value: T) -> (usize, bool) {
		let mut i = 0;
		while i < self.entries.len() {
			if *self.entries.at(i) == value { return (i, false); }
			i += 1;
		}
		self.entries.push(value);
		(self.entries.len() - 1, true)
	}
	#[inline] pub fn insert(&mut self, value: T) -> bool { self.insert_full(value).1 }
}
impl<T, S> Default for IndexSet<T, S> { #[inline] fn default() -> Self { IndexSet { entries: Store::new(), _s: PhantomData } } }
impl<T: Clone, S> Clone for IndexSet<T, S> { #[inline] fn clone(&self) -> Self { IndexSet { entries: self.entries.clone(), _s: PhantomData } } }
impl<T: Debug, S> Debug for IndexSet<T, S> { fn fmt(&self, f: &mut fmt::Formatter<'_>) -> fmt::Result { f.debug_set().entries(self.entries.iter()).finish() } }
impl<T: Eq, S1, S2> PartialEq<IndexSet<T, S2>> for IndexSet<T, S1> {
	fn eq(&self, other: &IndexSet<T, S2>) -> bool { self.len() == other.len() && self.entries.iter().all(|v| other.contains(v)) }
}
impl<T: Eq, S> Eq for IndexSet<T, S> {}
impl<T: Eq, S> Extend<T> for IndexSet<T, S> { #[inline] fn extend<I: IntoIterator<Item = T>>(&mut self, iter: I) { for v in iter { self.insert(v); } } }
impl<T: Eq, S> FromIterator<T> for IndexSet<T, S> { #[inline] fn from_iter<I: IntoIterator<Item = T>>(iter: I) -> Self { let mut s = IndexSet::default(); s.extend(iter); s } }
impl<T: Eq, const N: usize> From<[T; N]> for IndexSet<T> { fn from(arr: [T; N]) -> Self { arr.into_iter().collect() } }
impl<T, S> IntoIterator for IndexSet<T, S> { type Item = T; type IntoIter = StoreIntoIter<T>; #[inline] fn into_iter(self) -> Self::IntoIter { self.entries.into_iter() } }
impl<'a, T, S> IntoIterator for &'a IndexSet<T, S> { type Item = &'a T; type IntoIter = StoreIter<'a, T>; #[inline] fn into_iter(self) -> Self::IntoIter { self.entries.iter() } }
impl<T, S> Index<usize> for IndexSet<T, S> { type Output = T; fn index(&self, index: usize) -> &T { self.entries.at(index) } }
