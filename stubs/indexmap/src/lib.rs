//! Verification MODEL of the `indexmap` crate (see /verif/DESIGN.md §4.3).
//!
//! `IndexMap<K, V>` is an insertion-ordered `Vec<(K, V)>`; lookups are a linear scan using
//! [`Equivalent`]. Hashes are never computed. This is observationally equal to the real crate
//! whenever `k1 == k2` implies `hash(k1) == hash(k2)` for every key/query type involved.
#![allow(clippy::all)]

use core::borrow::Borrow;
use core::fmt::{self, Debug};
use core::marker::PhantomData;
use core::ops::{Index, IndexMut};

pub trait Equivalent<K: ?Sized> {
	fn equivalent(&self, key: &K) -> bool;
}
impl<Q: ?Sized, K: ?Sized> Equivalent<K> for Q where Q: Eq, K: Borrow<Q> {
	#[inline]
	fn equivalent(&self, key: &K) -> bool { PartialEq::eq(self, key.borrow()) }
}

pub mod map {
	pub use super::{IndexMap, Entry, OccupiedEntry, VacantEntry};
	pub type Iter<'a, K, V> = core::iter::Map<core::slice::Iter<'a, (K, V)>, fn(&'a (K, V)) -> (&'a K, &'a V)>;
}
pub mod set {
	pub use super::IndexSet;
}

pub struct IndexMap<K, V, S = ()> {
	entries: Vec<(K, V)>,
	_s: PhantomData<S>,
}

impl<K, V, S> IndexMap<K, V, S> {
	#[inline] pub fn len(&self) -> usize { self.entries.len() }
	#[inline] pub fn is_empty(&self) -> bool { self.entries.is_empty() }
	#[inline] pub fn iter(&self) -> impl DoubleEndedIterator<Item = (&K, &V)> + ExactSizeIterator + Clone + '_ { self.entries.iter().map(|(k, v)| (k, v)) }
	#[inline] pub fn iter_mut(&mut self) -> impl DoubleEndedIterator<Item = (&K, &mut V)> + ExactSizeIterator + '_ { self.entries.iter_mut().map(|(k, v)| (&*k, v)) }
	#[inline] pub fn keys(&self) -> impl DoubleEndedIterator<Item = &K> + ExactSizeIterator + Clone + '_ { self.entries.iter().map(|(k, _)| k) }
	#[inline] pub fn values(&self) -> impl DoubleEndedIterator<Item = &V> + ExactSizeIterator + Clone + '_ { self.entries.iter().map(|(_, v)| v) }
	#[inline] pub fn values_mut(&mut self) -> impl DoubleEndedIterator<Item = &mut V> + ExactSizeIterator + '_ { self.entries.iter_mut().map(|(_, v)| v) }
	#[inline] pub fn into_keys(self) -> impl DoubleEndedIterator<Item = K> + ExactSizeIterator { self.entries.into_iter().map(|(k, _)| k) }
	#[inline] pub fn into_values(self) -> impl DoubleEndedIterator<Item = V> + ExactSizeIterator { self.entries.into_iter().map(|(_, v)| v) }
	#[inline] pub fn clear(&mut self) { self.entries.clear() }
	#[inline] pub fn get_index(&self, index: usize) -> Option<(&K, &V)> { self.entries.get(index).map(|(k, v)| (k, v)) }
	#[inline] pub fn get_index_mut(&mut self, index: usize) -> Option<(&K, &mut V)> { self.entries.get_mut(index).map(|(k, v)| (&*k, v)) }
	#[inline] pub fn first(&self) -> Option<(&K, &V)> { self.entries.first().map(|(k, v)| (k, v)) }
	#[inline] pub fn last(&self) -> Option<(&K, &V)> { self.entries.last().map(|(k, v)| (k, v)) }
	#[inline] pub fn first_mut(&mut self) -> Option<(&K, &mut V)> { self.entries.first_mut().map(|(k, v)| (&*k, v)) }
	#[inline] pub fn last_mut(&mut self) -> Option<(&K, &mut V)> { self.entries.last_mut().map(|(k, v)| (&*k, v)) }
	#[inline] pub fn pop(&mut self) -> Option<(K, V)> { self.entries.pop() }
	#[inline] pub fn retain<F>(&mut self, mut keep: F) where F: FnMut(&K, &mut V) -> bool { self.entries.retain_mut(|(k, v)| keep(k, v)) }
	#[inline] pub fn drain<R>(&mut self, range: R) -> std::vec::Drain<'_, (K, V)> where R: core::ops::RangeBounds<usize> { self.entries.drain(range) }
	#[inline] pub fn reserve(&mut self, additional: usize) { self.entries.reserve(additional) }
	#[inline] pub fn sort_keys(&mut self) where K: Ord { self.entries.sort_by(|a, b| a.0.cmp(&b.0)) }
	#[inline] pub fn sort_by<F>(&mut self, mut cmp: F) where F: FnMut(&K, &V, &K, &V) -> core::cmp::Ordering { self.entries.sort_by(|a, b| cmp(&a.0, &a.1, &b.0, &b.1)) }
	#[inline] pub fn sort_unstable_keys(&mut self) where K: Ord { self.entries.sort_unstable_by(|a, b| a.0.cmp(&b.0)) }
	#[inline] pub fn swap_remove_index(&mut self, index: usize) -> Option<(K, V)> { if index < self.entries.len() { Some(self.entries.swap_remove(index)) } else { None } }
	#[inline] pub fn shift_remove_index(&mut self, index: usize) -> Option<(K, V)> { if index < self.entries.len() { Some(self.entries.remove(index)) } else { None } }
}

impl<K, V> IndexMap<K, V> {
	#[inline] pub fn new() -> Self { IndexMap { entries: Vec::new(), _s: PhantomData } }
	#[inline] pub fn with_capacity(n: usize) -> Self { IndexMap { entries: Vec::with_capacity(n), _s: PhantomData } }
}

impl<K, V, S> IndexMap<K, V, S> {
	#[inline]
	pub fn get_index_of<Q>(&self, key: &Q) -> Option<usize> where Q: ?Sized + Equivalent<K> {
		let mut i = 0;
		while i < self.entries.len() {
			if key.equivalent(&self.entries[i].0) { return Some(i); }
			i += 1;
		}
		None
	}
	#[inline] pub fn contains_key<Q>(&self, key: &Q) -> bool where Q: ?Sized + Equivalent<K> { self.get_index_of(key).is_some() }
	#[inline] pub fn get<Q>(&self, key: &Q) -> Option<&V> where Q: ?Sized + Equivalent<K> {
		match self.get_index_of(key) { Some(i) => Some(&self.entries[i].1), None => None }
	}
	#[inline] pub fn get_key_value<Q>(&self, key: &Q) -> Option<(&K, &V)> where Q: ?Sized + Equivalent<K> {
		match self.get_index_of(key) { Some(i) => Some((&self.entries[i].0, &self.entries[i].1)), None => None }
	}
	#[inline] pub fn get_full<Q>(&self, key: &Q) -> Option<(usize, &K, &V)> where Q: ?Sized + Equivalent<K> {
		match self.get_index_of(key) { Some(i) => Some((i, &self.entries[i].0, &self.entries[i].1)), None => None }
	}
	#[inline] pub fn get_mut<Q>(&mut self, key: &Q) -> Option<&mut V> where Q: ?Sized + Equivalent<K> {
		match self.get_index_of(key) { Some(i) => Some(&mut self.entries[i].1), None => None }
	}
	#[inline] pub fn swap_remove<Q>(&mut self, key: &Q) -> Option<V> where Q: ?Sized + Equivalent<K> {
		match self.get_index_of(key) { Some(i) => Some(self.entries.swap_remove(i).1), None => None }
	}
	#[inline] pub fn swap_remove_entry<Q>(&mut self, key: &Q) -> Option<(K, V)> where Q: ?Sized + Equivalent<K> {
		match self.get_index_of(key) { Some(i) => Some(self.entries.swap_remove(i)), None => None }
	}
	#[inline] pub fn shift_remove<Q>(&mut self, key: &Q) -> Option<V> where Q: ?Sized + Equivalent<K> {
		match self.get_index_of(key) { Some(i) => Some(self.entries.remove(i).1), None => None }
	}
	#[inline] pub fn shift_remove_entry<Q>(&mut self, key: &Q) -> Option<(K, V)> where Q: ?Sized + Equivalent<K> {
		match self.get_index_of(key) { Some(i) => Some(self.entries.remove(i)), None => None }
	}
	#[deprecated] #[inline] pub fn remove<Q>(&mut self, key: &Q) -> Option<V> where Q: ?Sized + Equivalent<K> { self.swap_remove(key) }
}

impl<K: Eq, V, S> IndexMap<K, V, S> {
	#[inline]
	pub fn insert_full(&mut self, key: K, value: V) -> (usize, Option<V>) {
		match self.get_index_of(&key) {
			Some(i) => (i, Some(core::mem::replace(&mut self.entries[i].1, value))),
			None => { self.entries.push((key, value)); (self.entries.len() - 1, None) }
		}
	}
	#[inline] pub fn insert(&mut self, key: K, value: V) -> Option<V> { self.insert_full(key, value).1 }
	#[inline]
	pub fn entry(&mut self, key: K) -> Entry<'_, K, V> {
		match self.get_index_of(&key) {
			Some(index) => Entry::Occupied(OccupiedEntry { entries: &mut self.entries, index, _key: key }),
			None => Entry::Vacant(VacantEntry { entries: &mut self.entries, key }),
		}
	}
}

pub enum Entry<'a, K, V> {
	Occupied(OccupiedEntry<'a, K, V>),
	Vacant(VacantEntry<'a, K, V>),
}
pub struct OccupiedEntry<'a, K, V> { entries: &'a mut Vec<(K, V)>, index: usize, _key: K }
pub struct VacantEntry<'a, K, V> { entries: &'a mut Vec<(K, V)>, key: K }

impl<'a, K, V> Entry<'a, K, V> {
	#[inline] pub fn or_insert(self, default: V) -> &'a mut V { match self { Entry::Occupied(e) => e.into_mut(), Entry::Vacant(e) => e.insert(default) } }
	#[inline] pub fn or_insert_with<F: FnOnce() -> V>(self, f: F) -> &'a mut V { match self { Entry::Occupied(e) => e.into_mut(), Entry::Vacant(e) => e.insert(f()) } }
	#[inline] pub fn or_default(self) -> &'a mut V where V: Default { match self { Entry::Occupied(e) => e.into_mut(), Entry::Vacant(e) => e.insert(V::default()) } }
	#[inline] pub fn key(&self) -> &K { match self { Entry::Occupied(e) => e.key(), Entry::Vacant(e) => e.key() } }
	#[inline] pub fn index(&self) -> usize { match self { Entry::Occupied(e) => e.index(), Entry::Vacant(e) => e.index() } }
	#[inline] pub fn and_modify<F: FnOnce(&mut V)>(mut self, f: F) -> Self { if let Entry::Occupied(e) = &mut self { f(e.get_mut()); } self }
}
impl<'a, K, V> OccupiedEntry<'a, K, V> {
	#[inline] pub fn key(&self) -> &K { &self.entries[self.index].0 }
	#[inline] pub fn index(&self) -> usize { self.index }
	#[inline] pub fn get(&self) -> &V { &self.entries[self.index].1 }
	#[inline] pub fn get_mut(&mut self) -> &mut V { &mut self.entries[self.index].1 }
	#[inline] pub fn into_mut(self) -> &'a mut V { &mut self.entries[self.index].1 }
	#[inline] pub fn insert(&mut self, value: V) -> V { core::mem::replace(&mut self.entries[self.index].1, value) }
	#[inline] pub fn swap_remove(self) -> V { self.entries.swap_remove(self.index).1 }
	#[inline] pub fn shift_remove(self) -> V { self.entries.remove(self.index).1 }
	#[inline] pub fn swap_remove_entry(self) -> (K, V) { self.entries.swap_remove(self.index) }
	#[inline] pub fn shift_remove_entry(self) -> (K, V) { self.entries.remove(self.index) }
}
impl<'a, K, V> VacantEntry<'a, K, V> {
	#[inline] pub fn key(&self) -> &K { &self.key }
	#[inline] pub fn into_key(self) -> K { self.key }
	#[inline] pub fn index(&self) -> usize { self.entries.len() }
	#[inline] pub fn insert(self, value: V) -> &'a mut V {
		self.entries.push((self.key, value));
		let n = self.entries.len() - 1;
		&mut self.entries[n].1
	}
}
impl<K: Debug, V: Debug> Debug for Entry<'_, K, V> {
	fn fmt(&self, f: &mut fmt::Formatter<'_>) -> fmt::Result { f.write_str("Entry") }
}
impl<K: Debug, V: Debug> Debug for OccupiedEntry<'_, K, V> {
	fn fmt(&self, f: &mut fmt::Formatter<'_>) -> fmt::Result { f.write_str("OccupiedEntry") }
}
impl<K: Debug, V: Debug> Debug for VacantEntry<'_, K, V> {
	fn fmt(&self, f: &mut fmt::Formatter<'_>) -> fmt::Result { f.write_str("VacantEntry") }
}

impl<K, V, S> Default for IndexMap<K, V, S> {
	#[inline] fn default() -> Self { IndexMap { entries: Vec::new(), _s: PhantomData } }
}
impl<K: Clone, V: Clone, S> Clone for IndexMap<K, V, S> {
	#[inline] fn clone(&self) -> Self { IndexMap { entries: self.entries.clone(), _s: PhantomData } }
}
impl<K: Debug, V: Debug, S> Debug for IndexMap<K, V, S> {
	fn fmt(&self, f: &mut fmt::Formatter<'_>) -> fmt::Result { f.debug_map().entries(self.entries.iter().map(|(k, v)| (k, v))).finish() }
}
/// Like the real crate: equal iff same length and every key of `self` maps to an equal value in `other` (order-insensitive).
impl<K: Eq, V1, V2, S1, S2> PartialEq<IndexMap<K, V2, S2>> for IndexMap<K, V1, S1> where V1: PartialEq<V2> {
	fn eq(&self, other: &IndexMap<K, V2, S2>) -> bool {
		if self.len() != other.len() { return false; }
		self.entries.iter().all(|(k, v)| other.get(k).map_or(false, |w| *v == *w))
	}
}
impl<K: Eq, V: Eq, S> Eq for IndexMap<K, V, S> {}

impl<K: Eq, V, S> Extend<(K, V)> for IndexMap<K, V, S> {
	#[inline] fn extend<I: IntoIterator<Item = (K, V)>>(&mut self, iter: I) { for (k, v) in iter { self.insert(k, v); } }
}
impl<K: Eq, V, S> FromIterator<(K, V)> for IndexMap<K, V, S> {
	#[inline] fn from_iter<I: IntoIterator<Item = (K, V)>>(iter: I) -> Self { let mut m = IndexMap::default(); m.extend(iter); m }
}
impl<K: Eq, V, const N: usize> From<[(K, V); N]> for IndexMap<K, V> {
	fn from(arr: [(K, V); N]) -> Self { arr.into_iter().collect() }
}
impl<K, V, S> IntoIterator for IndexMap<K, V, S> {
	type Item = (K, V);
	type IntoIter = std::vec::IntoIter<(K, V)>;
	#[inline] fn into_iter(self) -> Self::IntoIter { self.entries.into_iter() }
}
impl<'a, K, V, S> IntoIterator for &'a IndexMap<K, V, S> {
	type Item = (&'a K, &'a V);
	type IntoIter = map::Iter<'a, K, V>;
	#[inline] fn into_iter(self) -> Self::IntoIter { fn f<'a, K, V>(e: &'a (K, V)) -> (&'a K, &'a V) { (&e.0, &e.1) } self.entries.iter().map(f as fn(&'a (K, V)) -> (&'a K, &'a V)) }
}
impl<'a, K, V, S> IntoIterator for &'a mut IndexMap<K, V, S> {
	type Item = (&'a K, &'a mut V);
	type IntoIter = core::iter::Map<core::slice::IterMut<'a, (K, V)>, fn(&'a mut (K, V)) -> (&'a K, &'a mut V)>;
	#[inline] fn into_iter(self) -> Self::IntoIter { fn f<'a, K, V>(e: &'a mut (K, V)) -> (&'a K, &'a mut V) { (&e.0, &mut e.1) } self.entries.iter_mut().map(f as fn(&'a mut (K, V)) -> (&'a K, &'a mut V)) }
}
impl<K, V, Q: ?Sized, S> Index<&Q> for IndexMap<K, V, S> where Q: Equivalent<K> {
	type Output = V;
	fn index(&self, key: &Q) -> &V { self.get(key).expect("IndexMap: key not found") }
}
impl<K, V, Q: ?Sized, S> IndexMut<&Q> for IndexMap<K, V, S> where Q: Equivalent<K> {
	fn index_mut(&mut self, key: &Q) -> &mut V { self.get_mut(key).expect("IndexMap: key not found") }
}
impl<K, V, S> Index<usize> for IndexMap<K, V, S> {
	type Output = V;
	fn index(&self, index: usize) -> &V { &self.entries[index].1 }
}
impl<K, V, S> IndexMut<usize> for IndexMap<K, V, S> {
	fn index_mut(&mut self, index: usize) -> &mut V { &mut self.entries[index].1 }
}

// ---------------------------------------------------------------------------------------------

pub struct IndexSet<T, S = ()> {
	entries: Vec<T>,
	_s: PhantomData<S>,
}
impl<T> IndexSet<T> {
	#[inline] pub fn new() -> Self { IndexSet { entries: Vec::new(), _s: PhantomData } }
	#[inline] pub fn with_capacity(n: usize) -> Self { IndexSet { entries: Vec::with_capacity(n), _s: PhantomData } }
}
impl<T, S> IndexSet<T, S> {
	#[inline] pub fn len(&self) -> usize { self.entries.len() }
	#[inline] pub fn is_empty(&self) -> bool { self.entries.is_empty() }
	#[inline] pub fn iter(&self) -> core::slice::Iter<'_, T> { self.entries.iter() }
	#[inline] pub fn get_index(&self, index: usize) -> Option<&T> { self.entries.get(index) }
	#[inline] pub fn first(&self) -> Option<&T> { self.entries.first() }
	#[inline] pub fn last(&self) -> Option<&T> { self.entries.last() }
	#[inline] pub fn pop(&mut self) -> Option<T> { self.entries.pop() }
	#[inline] pub fn clear(&mut self) { self.entries.clear() }
	#[inline] pub fn retain<F>(&mut self, keep: F) where F: FnMut(&T) -> bool { self.entries.retain(keep) }
	#[inline] pub fn sort(&mut self) where T: Ord { self.entries.sort() }
	#[inline] pub fn as_slice(&self) -> &[T] { &self.entries }
	#[inline]
	pub fn get_index_of<Q>(&self, value: &Q) -> Option<usize> where Q: ?Sized + Equivalent<T> {
		let mut i = 0;
		while i < self.entries.len() {
			if value.equivalent(&self.entries[i]) { return Some(i); }
			i += 1;
		}
		None
	}
	#[inline] pub fn contains<Q>(&self, value: &Q) -> bool where Q: ?Sized + Equivalent<T> { self.get_index_of(value).is_some() }
	#[inline] pub fn get<Q>(&self, value: &Q) -> Option<&T> where Q: ?Sized + Equivalent<T> { match self.get_index_of(value) { Some(i) => Some(&self.entries[i]), None => None } }
	#[inline] pub fn get_full<Q>(&self, value: &Q) -> Option<(usize, &T)> where Q: ?Sized + Equivalent<T> { match self.get_index_of(value) { Some(i) => Some((i, &self.entries[i])), None => None } }
	#[inline] pub fn swap_remove<Q>(&mut self, value: &Q) -> bool where Q: ?Sized + Equivalent<T> { match self.get_index_of(value) { Some(i) => { self.entries.swap_remove(i); true }, None => false } }
	#[inline] pub fn shift_remove<Q>(&mut self, value: &Q) -> bool where Q: ?Sized + Equivalent<T> { match self.get_index_of(value) { Some(i) => { self.entries.remove(i); true }, None => false } }
	#[inline] pub fn swap_take<Q>(&mut self, value: &Q) -> Option<T> where Q: ?Sized + Equivalent<T> { match self.get_index_of(value) { Some(i) => Some(self.entries.swap_remove(i)), None => None } }
}
impl<T: Eq, S> IndexSet<T, S> {
	#[inline]
	pub fn insert_full(&mut self, value: T) -> (usize, bool) {
		match self.get_index_of(&value) {
			Some(i) => (i, false),
			None => { self.entries.push(value); (self.entries.len() - 1, true) }
		}
	}
	#[inline] pub fn insert(&mut self, value: T) -> bool { self.insert_full(value).1 }
}
impl<T, S> Default for IndexSet<T, S> { #[inline] fn default() -> Self { IndexSet { entries: Vec::new(), _s: PhantomData } } }
impl<T: Clone, S> Clone for IndexSet<T, S> { #[inline] fn clone(&self) -> Self { IndexSet { entries: self.entries.clone(), _s: PhantomData } } }
impl<T: Debug, S> Debug for IndexSet<T, S> { fn fmt(&self, f: &mut fmt::Formatter<'_>) -> fmt::Result { f.debug_set().entries(self.entries.iter()).finish() } }
impl<T: Eq, S1, S2> PartialEq<IndexSet<T, S2>> for IndexSet<T, S1> {
	fn eq(&self, other: &IndexSet<T, S2>) -> bool { self.len() == other.len() && self.entries.iter().all(|v| other.contains(v)) }
}
impl<T: Eq, S> Eq for IndexSet<T, S> {}
impl<T: Eq, S> Extend<T> for IndexSet<T, S> { #[inline] fn extend<I: IntoIterator<Item = T>>(&mut self, iter: I) { for v in iter { self.insert(v); } } }
impl<T: Eq, S> FromIterator<T> for IndexSet<T, S> { #[inline] fn from_iter<I: IntoIterator<Item = T>>(iter: I) -> Self { let mut s = IndexSet::default(); s.extend(iter); s } }
impl<T: Eq, const N: usize> From<[T; N]> for IndexSet<T> { fn from(arr: [T; N]) -> Self { arr.into_iter().collect() } }
impl<T, S> IntoIterator for IndexSet<T, S> { type Item = T; type IntoIter = std::vec::IntoIter<T>; #[inline] fn into_iter(self) -> Self::IntoIter { self.entries.into_iter() } }
impl<'a, T, S> IntoIterator for &'a IndexSet<T, S> { type Item = &'a T; type IntoIter = core::slice::Iter<'a, T>; #[inline] fn into_iter(self) -> Self::IntoIter { self.entries.iter() } }
impl<T, S> Index<usize> for IndexSet<T, S> { type Output = T; fn index(&self, index: usize) -> &T { &self.entries[index] } }
