// intentionally empty
