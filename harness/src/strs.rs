//! Symbolic short ASCII strings.
use crate::sym;
use java_string::{JavaStr, JavaString};

/// A string of `len <= N` bytes, every byte in 0x01..=0x7F (standing assumption: ASCII).
pub struct SymStr<const N: usize> {
	pub bytes: [u8; N],
	pub len: usize,
}

impl<const N: usize> SymStr<N> {
	/// Every ASCII string of length `lo..=hi`.
	pub fn any(lo: usize, hi: usize) -> SymStr<N> {
		let mut bytes = [b'?'; N];
		let len = sym::usize_in(lo, hi);
		let mut i = 0;
		while i < N {
			if i < hi {
				let b = sym::u8();
				sym::assume(b >= 1 && b < 0x80);
				bytes[i] = b;
			}
			i += 1;
		}
		SymStr { bytes, len }
	}
	/// Every ASCII string of length exactly `N` (the length is a compile-time constant, which keeps
	/// loop trip counts concrete for the symbolic executor).
	pub fn exact() -> SymStr<N> {
		let mut bytes = [b'?'; N];
		let mut i = 0;
		while i < N {
			let b = sym::u8();
			sym::assume(b >= 1 && b < 0x80);
			bytes[i] = b;
			i += 1;
		}
		SymStr { bytes, len: N }
	}
	/// Every string of length `lo..=hi` over `alphabet` (concrete table, symbolic index).
	pub fn over(alphabet: &[u8], lo: usize, hi: usize) -> SymStr<N> {
		let mut bytes = [b'?'; N];
		let len = sym::usize_in(lo, hi);
		let mut i = 0;
		while i < N {
			if i < hi {
				let k = sym::u8() as usize;
				sym::assume(k < alphabet.len());
				bytes[i] = alphabet[k];
			}
			i += 1;
		}
		SymStr { bytes, len }
	}
	/// The `shape`-th string of length `len` over the byte classes `classes` + "any other byte":
	/// digit i of `shape` in base `classes.len() + 1` selects the class of byte i; digit 0 is a
	/// fresh symbolic byte that is none of `classes`. For a concrete `shape` every comparison of the
	/// code under test against one of `classes` is decided during symbolic execution, so control flow
	/// is concrete while the "other" bytes stay universally quantified. Running all
	/// `(classes.len() + 1) ^ len` shapes covers every ASCII string of that length exactly once.
	pub fn shaped(shape: usize, len: usize, classes: &[u8]) -> SymStr<N> {
		let mut bytes = [b'?'; N];
		let base = classes.len() + 1;
		let mut rest = shape;
		let mut i = 0;
		while i < len {
			let d = rest % base;
			rest /= base;
			if d == 0 {
				let b = sym::u8();
				sym::assume(b >= 1 && b < 0x80);
				let mut k = 0;
				while k < classes.len() { sym::assume(b != classes[k]); k += 1; }
				bytes[i] = b;
			} else {
				bytes[i] = classes[d - 1];
			}
			i += 1;
		}
		SymStr { bytes, len }
	}
	#[inline(always)]
	pub fn slice(&self) -> &[u8] { &self.bytes[..self.len] }
	#[inline(always)]
	pub fn java(&self) -> &JavaStr {
		// SAFETY: all bytes are ASCII, which is valid semi-UTF-8.
		unsafe { JavaStr::from_semi_utf8_unchecked(&self.bytes[..self.len]) }
	}
	pub fn java_string(&self) -> JavaString { self.java().to_owned() }
}

pub const fn pow(base: usize, exp: usize) -> usize { let mut r = 1; let mut i = 0; while i < exp { r *= base; i += 1; } r }

/// Bytewise equality without `memcmp` (keeps the unwinding bound small and explicit).
#[inline]
pub fn bytes_eq(a: &[u8], b: &[u8]) -> bool {
	if a.len() != b.len() { return false; }
	let mut i = 0;
	while i < a.len() {
		if a[i] != b[i] { return false; }
		i += 1;
	}
	true
}
