//! Symbolic short ASCII strings.
use crate::sym;
use java_string::{JavaStr, JavaString};

/// A string of `len <= N` bytes, every byte in 0x01..=0x7F (standing assumption: ASCII).
pub struct SymStr<const N: usize> {
	pub bytes: [u8; N],
	pub len: usize,
}

impl<const N: usize> SymStr<N> {
	/// Every ASCII string of length `lo..=hi`.
	pub fn any(lo: usize, hi: usize) -> SymStr<N> {
		let mut bytes = [b'?'; N];
		let len = sym::usize_in(lo, hi);
		let mut i = 0;
		while i < N {
			if i < hi {
				let b = sym::u8();
				sym::assume(b >= 1 && b < 0x80);
				bytes[i] = b;
			}
			i += 1;
		}
		SymStr { bytes, len }
	}
	/// Every ASCII string of length exactly `N` (the length is a compile-time constant, which keeps
	/// loop trip counts concrete for the symbolic executor).
	pub fn exact() -> SymStr<N> {
		let mut bytes = [b'?'; N];
		let mut i = 0;
		while i < N {
			let b = sym::u8();
			sym::assume(b >= 1 && b < 0x80);
			bytes[i] = b;
			i += 1;
		}
		SymStr { bytes, len: N }
	}
	/// Every string of length `lo..=hi` over `alphabet` (concrete table, symbolic index).
	pub fn over(alphabet: &[u8], lo: usize, hi: usize) -> SymStr<N> {
		let mut bytes = [b'?'; N];
		let len = sym::usize_in(lo, hi);
		let mut i = 0;
		while i < N {
			if i < hi {
				let k = sym::u8() as usize;
				sym::assume(k < alphabet.len());
				bytes[i] = alphabet[k];
			}
			i += 1;
		}
		SymStr { bytes, len }
	}
	#[inline(always)]
	pub fn slice(&self) -> &[u8] { &self.bytes[..self.len] }
	#[inline(always)]
	pub fn java(&self) -> &JavaStr {
		// SAFETY: all bytes are ASCII, which is valid semi-UTF-8.
		unsafe { JavaStr::from_semi_utf8_unchecked(&self.bytes[..self.len]) }
	}
	pub fn java_string(&self) -> JavaString { self.java().to_owned() }
}

/// Bytewise equality without `memcmp` (keeps the unwinding bound small and explicit).
#[inline]
pub fn bytes_eq(a: &[u8], b: &[u8]) -> bool {
	if a.len() != b.len() { return false; }
	let mut i = 0;
	while i < a.len() {
		if a[i] != b[i] { return false; }
		i += 1;
	}
	true
}
