//! Independent reference models, written from the JVMS / the property texts. Nothing in here
//! calls the code under test.

/// JVMS access-flag bit values (Tables 4.1-B, 4.5-A, 4.6-A, 4.7.6-A, 4.7.24, 4.7.25).
pub mod acc {
	pub const PUBLIC: u16 = 0x0001;
	pub const PRIVATE: u16 = 0x0002;
	pub const PROTECTED: u16 = 0x0004;
	pub const STATIC: u16 = 0x0008;
	pub const FINAL: u16 = 0x0010;
	pub const SUPER: u16 = 0x0020;
	pub const SYNCHRONIZED: u16 = 0x0020;
	pub const OPEN: u16 = 0x0020;
	pub const TRANSITIVE: u16 = 0x0020;
	pub const VOLATILE: u16 = 0x0040;
	pub const BRIDGE: u16 = 0x0040;
	pub const STATIC_PHASE: u16 = 0x0040;
	pub const TRANSIENT: u16 = 0x0080;
	pub const VARARGS: u16 = 0x0080;
	pub const NATIVE: u16 = 0x0100;
	pub const INTERFACE: u16 = 0x0200;
	pub const ABSTRACT: u16 = 0x0400;
	pub const STRICT: u16 = 0x0800;
	pub const SYNTHETIC: u16 = 0x1000;
	pub const ANNOTATION: u16 = 0x2000;
	pub const ENUM: u16 = 0x4000;
	pub const MODULE: u16 = 0x8000;
	pub const MANDATED: u16 = 0x8000;
}

#[inline(always)]
pub fn bit(word: u16, mask: u16) -> bool { word & mask != 0 }
