//! Independent reference models, written from the JVMS / the property texts. Nothing in here
//! calls the code under test.

/// JVMS access-flag bit values (Tables 4.1-B, 4.5-A, 4.6-A, 4.7.6-A, 4.7.24, 4.7.25).
pub mod acc {
	pub const PUBLIC: u16 = 0x0001;
	pub const PRIVATE: u16 = 0x0002;
	pub const PROTECTED: u16 = 0x0004;
	pub const STATIC: u16 = 0x0008;
	pub const FINAL: u16 = 0x0010;
	pub const SUPER: u16 = 0x0020;
	pub const SYNCHRONIZED: u16 = 0x0020;
	pub const OPEN: u16 = 0x0020;
	pub const TRANSITIVE: u16 = 0x0020;
	pub const VOLATILE: u16 = 0x0040;
	pub const BRIDGE: u16 = 0x0040;
	pub const STATIC_PHASE: u16 = 0x0040;
	pub const TRANSIENT: u16 = 0x0080;
	pub const VARARGS: u16 = 0x0080;
	pub const NATIVE: u16 = 0x0100;
	pub const INTERFACE: u16 = 0x0200;
	pub const ABSTRACT: u16 = 0x0400;
	pub const STRICT: u16 = 0x0800;
	pub const SYNTHETIC: u16 = 0x1000;
	pub const ANNOTATION: u16 = 0x2000;
	pub const ENUM: u16 = 0x4000;
	pub const MODULE: u16 = 0x8000;
	pub const MANDATED: u16 = 0x8000;
}

#[inline(always)]
pub fn bit(word: u16, mask: u16) -> bool { word & mask != 0 }

/// JVMS 4.2 / 4.3 written over bytes (ASCII), independent of the code under test.
pub mod grammar {
	/// 4.2.2 unqualified name: non-empty, none of `. ; [ /`.
	pub fn unqualified(s: &[u8]) -> bool {
		if s.is_empty() { return false; }
		let mut i = 0;
		while i < s.len() {
			if matches!(s[i], b'.' | b';' | b'[' | b'/') { return false; }
			i += 1;
		}
		true
	}
	/// 4.2.2 method name: `<init>`, `<clinit>` or an unqualified name without `<` `>`.
	pub fn method_name(s: &[u8]) -> bool {
		if s == b"<init>" || s == b"<clinit>" { return true; }
		if s.is_empty() { return false; }
		let mut i = 0;
		while i < s.len() {
			if matches!(s[i], b'.' | b';' | b'[' | b'/' | b'<' | b'>') { return false; }
			i += 1;
		}
		true
	}
	/// 4.2.1 binary class name in internal form: unqualified names separated by `/`.
	pub fn obj_class_name(s: &[u8]) -> bool {
		// every `/`-separated part non-empty and free of `. ; [`
		let mut part_len = 0usize;
		let mut i = 0;
		while i < s.len() {
			let c = s[i];
			if c == b'/' {
				if part_len == 0 { return false; }
				part_len = 0;
			} else {
				if matches!(c, b'.' | b';' | b'[') { return false; }
				part_len += 1;
			}
			i += 1;
		}
		part_len != 0
	}

	#[derive(Clone, Copy, PartialEq, Eq, Debug)]
	pub enum Base { Prim(u8), Obj(usize, usize) }
	#[derive(Clone, Copy, PartialEq, Eq, Debug)]
	pub struct FieldType { pub dims: usize, pub base: Base }

	/// 4.3.2 FieldType starting at `i`: Some((type, index after it)).
	pub fn field_type(s: &[u8], mut i: usize) -> Option<(FieldType, usize)> {
		let mut dims = 0usize;
		while i < s.len() && s[i] == b'[' { dims += 1; i += 1; }
		if dims > 255 { return None; }
		if i >= s.len() { return None; }
		match s[i] {
			b'B' | b'C' | b'D' | b'F' | b'I' | b'J' | b'S' | b'Z' => Some((FieldType { dims, base: Base::Prim(s[i]) }, i + 1)),
			b'L' => {
				let start = i + 1;
				let mut j = start;
				while j < s.len() && s[j] != b';' { j += 1; }
				if j >= s.len() { return None; }
				if !obj_class_name(&s[start..j]) { return None; }
				Some((FieldType { dims, base: Base::Obj(start, j) }, j + 1))
			},
			_ => None,
		}
	}
	/// FieldDescriptor: exactly one FieldType.
	pub fn field_descriptor(s: &[u8]) -> Option<FieldType> {
		match field_type(s, 0) { Some((t, end)) if end == s.len() => Some(t), _ => None }
	}
	/// ReturnDescriptor: `V` or a FieldType. Outer None = reject, inner None = void.
	pub fn return_descriptor(s: &[u8]) -> Option<Option<FieldType>> {
		if s == b"V" { return Some(None); }
		field_descriptor(s).map(Some)
	}
	/// Array class name (4.2.1): a field descriptor with at least one dimension.
	pub fn arr_class_name(s: &[u8]) -> bool {
		matches!(field_descriptor(s), Some(t) if t.dims >= 1)
	}
	pub fn class_name(s: &[u8]) -> bool { arr_class_name(s) || obj_class_name(s) }
}
