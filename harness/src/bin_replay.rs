//! `replay <harness> <values.json>`: re-executes one harness natively (real anyhow / indexmap /
//! HashMap) on the concrete values of a Kani trace.
//! exit 0: ran to completion, no assertion failed          (trace does NOT reproduce)
//! exit 1: the harness panicked                             (trace reproduces)
//! exit 3: the values violate a harness assumption / ran out (trace does not fit the harness)
//! exit 4: usage / unknown harness
use std::panic;

fn parse_values(text: &str) -> Vec<Vec<u8>> {
	// minimal parser for [[1,2],[3],...]
	let mut out = Vec::new();
	let mut cur: Option<Vec<u8>> = None;
	let mut num: Option<u32> = None;
	let mut depth = 0;
	for c in text.chars() {
		match c {
			'[' => { depth += 1; if depth == 2 { cur = Some(Vec::new()); } },
			']' => {
				if let (Some(n), Some(v)) = (num.take(), cur.as_mut()) { v.push(n as u8); }
				if depth == 2 { out.push(cur.take().unwrap_or_default()); }
				depth -= 1;
				if depth == 0 { break; }
			},
			',' => { if let (Some(n), Some(v)) = (num.take(), cur.as_mut()) { v.push(n as u8); } },
			d if d.is_ascii_digit() => { num = Some(num.unwrap_or(0) * 10 + d.to_digit(10).unwrap_or(0)); },
			_ => {},
		}
	}
	out
}

fn main() {
	let args: Vec<String> = std::env::args().collect();
	if args.len() == 2 && args[1] == "--list" {
		for (n, _) in fbr_harness::all() { println!("{n}"); }
		return;
	}
	if args.len() == 4 && args[1] == "--enum-bytes" {
		// diagnosis only (never used by a check): run a harness natively on every tuple of n bytes in 1..=127
		let Some((_, f)) = fbr_harness::all().into_iter().find(|(n, _)| *n == args[2]) else { eprintln!("unknown harness"); std::process::exit(4) };
		let n: usize = args[3].parse().unwrap_or(1);
		panic::set_hook(Box::new(|_| {}));
		let mut v = vec![1u8; n];
		let mut shown = 0;
		loop {
			fbr_harness::sym::load(v.iter().map(|b| vec![*b]).collect());
			if let Err(p) = panic::catch_unwind(f) {
				let msg = p.downcast_ref::<String>().cloned().or_else(|| p.downcast_ref::<&str>().map(|s| s.to_string())).unwrap_or_default();
				if !msg.contains(fbr_harness::sym::ASSUME_FAILED) && !msg.contains(fbr_harness::sym::EXHAUSTED) && shown < 20 { println!("FAIL {:?} {:?}: {msg}", v, String::from_utf8_lossy(&v)); shown += 1; }
			}
			let mut i = 0;
			loop { if i == n { return; } if v[i] < 127 { v[i] += 1; break; } v[i] = 1; i += 1; }
		}
	}
	if args.len() != 3 { eprintln!("usage: replay <harness> <values.json> | --list"); std::process::exit(4); }
	let Some((_, f)) = fbr_harness::all().into_iter().find(|(n, _)| *n == args[1]) else {
		eprintln!("unknown harness {}", args[1]); std::process::exit(4);
	};
	let text = std::fs::read_to_string(&args[2]).unwrap_or_else(|e| { eprintln!("cannot read {}: {e}", args[2]); std::process::exit(4) });
	// the file is {"harness": .., "values": [[..],..], ...}; take the array after "values"
	let values = match text.find("\"values\"") { Some(i) => parse_values(&text[i + 8..]), None => parse_values(&text) };
	fbr_harness::sym::load(values);
	let r = panic::catch_unwind(f);
	match r {
		Ok(()) => { println!("REPLAY: completed without panic"); std::process::exit(0) },
		Err(p) => {
			let msg = p.downcast_ref::<String>().cloned().or_else(|| p.downcast_ref::<&str>().map(|s| s.to_string())).unwrap_or_default();
			if msg.contains(fbr_harness::sym::ASSUME_FAILED) || msg.contains(fbr_harness::sym::EXHAUSTED) {
				println!("REPLAY: trace does not fit harness ({msg})"); std::process::exit(3)
			}
			println!("REPLAY: panicked: {msg}"); std::process::exit(1)
		},
	}
}
