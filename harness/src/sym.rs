//! The only source of nondeterminism for harnesses.
//!
//! Under Kani every call is one `kani::any()` of a primitive, so a concrete-playback trace is
//! a list of little-endian byte vectors in call order. Natively (replay crate) the same calls
//! pop those vectors from a queue that `replay` filled from the counterexample file, so a
//! harness body runs unchanged against the real (unmodelled) crates.

#[cfg(kani)]
mod imp {
	#[inline(always)] pub fn bool() -> core::primitive::bool { kani::any() }
	#[inline(always)] pub fn u8() -> core::primitive::u8 { kani::any() }
	#[inline(always)] pub fn u16() -> core::primitive::u16 { kani::any() }
	#[inline(always)] pub fn u32() -> core::primitive::u32 { kani::any() }
	#[inline(always)] pub fn u64() -> core::primitive::u64 { kani::any() }
	#[inline(always)] pub fn usize() -> core::primitive::usize { kani::any() }
	#[inline(always)] pub fn i8() -> core::primitive::i8 { kani::any() }
	#[inline(always)] pub fn i16() -> core::primitive::i16 { kani::any() }
	#[inline(always)] pub fn i32() -> core::primitive::i32 { kani::any() }
	#[inline(always)] pub fn i64() -> core::primitive::i64 { kani::any() }
	#[inline(always)] pub fn assume(c: core::primitive::bool) { kani::assume(c) }
}

#[cfg(not(kani))]
mod imp {
	use std::cell::RefCell;
	use std::collections::VecDeque;
	thread_local! {
		pub static QUEUE: RefCell<VecDeque<Vec<core::primitive::u8>>> = RefCell::new(VecDeque::new());
	}
	/// Panic payload used when a replayed trace does not satisfy a harness assumption.
	pub const ASSUME_FAILED: &str = "VERIF-REPLAY-ASSUMPTION-FAILED";
	pub const EXHAUSTED: &str = "VERIF-REPLAY-INPUT-EXHAUSTED";
	fn next<const N: usize>() -> [core::primitive::u8; N] {
		QUEUE.with(|q| {
			let v = q.borrow_mut().pop_front().unwrap_or_else(|| panic!("{}", EXHAUSTED));
			let mut out = [0u8; N];
			for (i, b) in v.iter().take(N).enumerate() { out[i] = *b; }
			out
		})
	}
	pub fn bool() -> core::primitive::bool { next::<1>()[0] & 1 != 0 }
	pub fn u8() -> core::primitive::u8 { next::<1>()[0] }
	pub fn u16() -> core::primitive::u16 { core::primitive::u16::from_le_bytes(next()) }
	pub fn u32() -> core::primitive::u32 { core::primitive::u32::from_le_bytes(next()) }
	pub fn u64() -> core::primitive::u64 { core::primitive::u64::from_le_bytes(next()) }
	pub fn usize() -> core::primitive::usize { core::primitive::usize::from_le_bytes(next()) }
	pub fn i8() -> core::primitive::i8 { next::<1>()[0] as core::primitive::i8 }
	pub fn i16() -> core::primitive::i16 { core::primitive::i16::from_le_bytes(next()) }
	pub fn i32() -> core::primitive::i32 { core::primitive::i32::from_le_bytes(next()) }
	pub fn i64() -> core::primitive::i64 { core::primitive::i64::from_le_bytes(next()) }
	pub fn assume(c: core::primitive::bool) { if !c { panic!("{}", ASSUME_FAILED); } }
	pub fn load(values: Vec<Vec<core::primitive::u8>>) { QUEUE.with(|q| *q.borrow_mut() = values.into()); }
}

pub use imp::*;

/// A value in `lo..=hi`.
#[inline(always)]
pub fn u8_in(lo: core::primitive::u8, hi: core::primitive::u8) -> core::primitive::u8 { let v = u8(); assume(lo <= v && v <= hi); v }
#[inline(always)]
pub fn usize_in(lo: core::primitive::usize, hi: core::primitive::usize) -> core::primitive::usize { let v = u8() as core::primitive::usize; assume(lo <= v && v <= hi); v }

/// Vacuity witness: under Kani a `cover` property that must come back SATISFIED.
#[macro_export]
macro_rules! witness {
	($cond:expr, $name:literal) => {{
		#[cfg(kani)] { kani::cover!($cond, $name); }
		#[cfg(not(kani))] { let _ = $cond; }
	}};
}

/// Defines a harness: a plain `pub fn` (used by native replay) plus its `#[kani::proof]` entry.
#[macro_export]
macro_rules! harness {
	($(#[$m:meta])* fn $name:ident() $body:block) => {
		pub fn $name() $body
	};
}
