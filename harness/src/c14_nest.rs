//! C14: the name kernels of nesting.
use crate::refmodel::grammar;
use crate::strs::{bytes_eq, SymStr};
use crate::{proofs, sym, witness};
use duke::tree::class::ObjClassNameSlice;
use dukenest::verif::{jar, mapper};
use java_string::JavaStr;

fn is_digit(b: u8) -> bool { b >= b'0' && b <= b'9' }
fn digits_prefix(s: &[u8]) -> usize { let mut i = 0; while i < s.len() && is_digit(s[i]) { i += 1; } i }
fn obj<const N: usize>(s: &SymStr<N>) -> &ObjClassNameSlice {
	// SAFETY: callers assume validity first.
	unsafe { ObjClassNameSlice::from_inner_unchecked(s.java()) }
}

const NEST_ALPHABET: &[u8] = b"01aC_/$";

fn nest_type_body<const N: usize>(s: &SymStr<N>) {
	sym::assume(grammar::obj_class_name(s.slice()));
	let (kind, first, second) = mapper::nest_type_a(obj(s));
	let d = digits_prefix(s.slice());
	if d == s.len {
		assert!(kind == 0 && bytes_eq(first.as_inner().as_bytes(), s.slice()), "all digits: anonymous");
	} else if d == 0 {
		assert!(kind == 1 && bytes_eq(first.as_inner().as_bytes(), s.slice()), "no digit prefix: inner (member) class");
	} else {
		assert!(kind == 2, "digit prefix then a name: local class");
		assert!(bytes_eq(first.as_inner().as_bytes(), &s.slice()[..d]), "the digits");
		assert!(matches!(second, Some(x) if bytes_eq(x.as_inner().as_bytes(), &s.slice()[d..])), "the name after the digits");
	}
	// strip_local_class_prefix: drop leading digits unless everything is a digit
	let stripped = jar::strip_local_class_prefix(s.java());
	let want = if d == s.len { s.slice() } else { &s.slice()[d..] };
	assert!(bytes_eq(stripped.as_bytes(), want), "strip_local_class_prefix");
	witness!(kind == 2 && s.len == N, "a local class name of maximal length");
	witness!(kind == 0 && s.len >= 2, "an anonymous class number");
}

fn rsplit_body<const N: usize>(s: &SymStr<N>) {
	sym::assume(grammar::obj_class_name(s.slice()));
	let r = mapper::rsplit_underscore(obj(s));
	// reference: last occurrence of "__"
	let b = s.slice();
	let mut at = None;
	let mut i = b.len();
	while i >= 2 { if b[i - 2] == b'_' && b[i - 1] == b'_' { at = Some(i - 2); break; } i -= 1; }
	match (r, at) {
		(Ok(None), None) => {},
		(Ok(Some((encl, inner))), Some(p)) => {
			assert!(bytes_eq(encl.as_inner().as_bytes(), &b[..p]) && bytes_eq(inner.as_inner().as_bytes(), &b[p + 2..]), "cut at the last __");
			assert!(!(p > 0 && b[p - 1] == b'/') && !(p + 2 < b.len() && b[p + 2] == b'/'), "a cut next to a package separator must be refused");
		},
		(Err(_), Some(p)) => assert!((p > 0 && b[p - 1] == b'/') || (p + 2 < b.len() && b[p + 2] == b'/'), "refused although both halves are proper names"),
		_ => panic!("rsplit_underscore disagrees about the presence of __"),
	}
	witness!(at.is_some() && s.len == N, "a name with a double underscore");
}

//# {"id":"c14_nest_type_alpha3","props":["C14"],"tier":"quick","cap":1200,"bound":"every valid class name of length 1..=3 over the alphabet 0 1 a C _ / $ ; unwind 6","z":["stubbing"],"fns":["dukenest::nests_mapper_run::NestTypeA::new","dukenest::nester_jar::strip_local_class_prefix"]}
//# {"id":"c14_rsplit_alpha4","props":["C14"],"tier":"quick","cap":1500,"bound":"every valid class name of length 1..=4 over the alphabet 0 1 a C _ / $ ; unwind 7","z":["stubbing"],"fns":["dukenest::nests_mapper_run::rsplit_underscore"]}
//# {"id":"c14_inner_name_cases","props":["C14"],"tier":"quick","cap":1500,"bound":"inner_name on nest class names {Foo, Foo$Bar, Foo$1Bar} x inner names {Bar, 1Bar, 12, Baz} x mapped names {M, p/M, p/C_7, C_x} chosen symbolically; unwind 12","z":["stubbing"],"lib":"verif","fns":["dukenest::nests_mapper_run::{inner_name,construct_inner_name_from_anonymous_number}"]}
//# {"id":"c14_nest_type_alpha5","props":["C14"],"tier":"quick","cap":900,"bound":"every valid class name of length 1..=5 over the alphabet 0 1 a C _ / $ ; unwind 8","z":["stubbing"],"fns":["NestTypeA::new","strip_local_class_prefix"]}
proofs! {
	#[cfg_attr(kani, kani::unwind(6))]
	fn c14_nest_type_alpha3() { let s = SymStr::<3>::over(NEST_ALPHABET, 1, 3); nest_type_body(&s); }
	#[cfg_attr(kani, kani::unwind(8))]
	fn c14_nest_type_alpha5() { let s = SymStr::<5>::over(NEST_ALPHABET, 1, 5); nest_type_body(&s); }
	#[cfg_attr(kani, kani::unwind(7))]
	fn c14_rsplit_alpha4() { let s = SymStr::<4>::over(NEST_ALPHABET, 1, 4); rsplit_body(&s); }

	#[cfg_attr(kani, kani::unwind(12))]
	fn c14_inner_name_cases() {
		fn oc(s: &'static str) -> &'static ObjClassNameSlice { unsafe { ObjClassNameSlice::from_inner_unchecked(JavaStr::from_str(s)) } }
		let class = match sym::u8_in(0, 2) { 0 => "Foo", 1 => "Foo$Bar", _ => "Foo$1Bar" };
		let inner = match sym::u8_in(0, 3) { 0 => "Bar", 1 => "1Bar", 2 => "12", _ => "Baz" };
		let mapped = match sym::u8_in(0, 3) { 0 => "M", 1 => "p/M", 2 => "p/C_7", _ => "C_x" };
		let r = mapper::inner_name(oc(class), oc(inner), oc(mapped));
		let simple: &[u8] = match mapped { "p/M" => b"M", "p/C_7" => b"C_7", m => m.as_bytes() };
		let ends_with_bar = class.len() > 3 && class.as_bytes()[class.len() - 3..] == *b"Bar";
		// documented three cases; the expected name is `pre ++ post` (no heap, no formatting in the oracle)
		let want: Result<(&[u8], &[u8]), ()> = match inner {
			"12" => if simple.len() == 3 && simple[0] == b'C' && simple[1] == b'_' { if simple[2] == b'7' { Ok((b"7", b"")) } else { Err(()) } } else { Ok((b"12", b"")) },
			"1Bar" => if ends_with_bar { Ok((b"1", simple)) } else { Ok((b"1Bar", b"")) },
			"Bar" => if ends_with_bar { Ok((simple, b"")) } else { Ok((b"Bar", b"")) },
			_ => Ok((b"Baz", b"")), // no class name above ends with Baz
		};
		match (&r, &want) {
			(Ok(g), Ok((pre, post))) => {
				let g = g.as_inner().as_bytes();
				assert!(g.len() == pre.len() + post.len(), "inner_name differs from its three documented cases (length)");
				let mut k = 0;
				while k < g.len() { let w = if k < pre.len() { pre[k] } else { post[k - pre.len()] }; assert!(g[k] == w, "inner_name differs from its three documented cases"); k += 1; }
			},
			(Err(_), Err(())) => {},
			_ => panic!("inner_name: error/success mismatch"),
		}
		witness!(matches!(want, Err(())), "anonymous class mapped to a C_ name that is not a number");
		witness!(inner == "1Bar" && ends_with_bar && simple.len() == 3, "local class renamed through the mapping");
		core::mem::forget(r);
	}
}


