//! C16 / C01: the reader's label table. (`read_code` itself does not finish symbolic execution
//! even on a one-byte code array: > 1000 s and > 12 GB in symex, see DESIGN.md.)
use crate::{proofs, sym, witness};
use duke::verif::reader;

//# {"id":"c16_labels_range_past_u16","props":["C16","C01"],"tier":"thorough","cap":3600,"z":["stubbing"],"bound":"code_length = 20, start_pc < 20, start_pc + length > 65535 (all such u16 pairs); one label-map entry; unwind 10","fns":["Labels::{new,get_or_create,get_or_create_range}"],"stubs":["RandomState::new","DefaultHasher::{write,finish}"]}
//# {"id":"c16_labels_range","props":["C16","C01"],"tier":"thorough","cap":3600,"z":["stubbing"],"bound":"code_length = 20 (concrete, it sizes the hash map), all start_pc and length in u16; one or two label-map entries; unwind 10","fns":["duke::class_reader::labels::Labels::{new,get_or_create,get_or_create_range}"],"stubs":["RandomState::new","DefaultHasher::{write,finish}"]}
proofs! {
	#[cfg_attr(kani, kani::unwind(10))]
	#[cfg_attr(kani, kani::stub(std::hash::RandomState::new, crate::hstubs::random_state_new))]
	#[cfg_attr(kani, kani::stub(<std::hash::DefaultHasher as std::hash::Hasher>::write, crate::hstubs::hasher_write))]
	#[cfg_attr(kani, kani::stub(<std::hash::DefaultHasher as std::hash::Hasher>::finish, crate::hstubs::hasher_finish))]
	fn c16_labels_range() {
		const CODE_LENGTH: u16 = 20;
		let start = sym::u16();
		let length = sym::u16();
		let mut labels = reader::Labels::new(CODE_LENGTH);
		let r = labels.get_or_create_range(start, length);
		let end = start as u32 + length as u32;
		// a range is legal iff it starts inside the code and ends at most one past it
		let legal = start < CODE_LENGTH && end <= CODE_LENGTH as u32;
		match &r {
			Ok(range) => {
				assert!(legal, "a range reaching past the end of the code (or past 65535) must be an error");
				let (s, e) = duke::verif::label_range_ids(range);
				assert!((s == e) == (length == 0), "start and end label coincide exactly for the empty range");
			},
			Err(_) => assert!(!legal, "a legal range was rejected"),
		}
		witness!(legal && end == CODE_LENGTH as u32, "range ending exactly at the end of the code");
		witness!(start < CODE_LENGTH && end > 65535, "start_pc + length exceeds 65535");
		core::mem::forget(labels);
		core::mem::forget(r);
	}

	#[cfg_attr(kani, kani::unwind(10))]
	#[cfg_attr(kani, kani::stub(std::hash::RandomState::new, crate::hstubs::random_state_new))]
	#[cfg_attr(kani, kani::stub(<std::hash::DefaultHasher as std::hash::Hasher>::write, crate::hstubs::hasher_write))]
	#[cfg_attr(kani, kani::stub(<std::hash::DefaultHasher as std::hash::Hasher>::finish, crate::hstubs::hasher_finish))]
	fn c16_labels_range_past_u16() {
		// the region where start_pc + length does not fit 16 bits (a local-variable or type-annotation
		// range of a hostile class file): must be an error, not a panic and not a wrapped range
		const CODE_LENGTH: u16 = 20;
		let start = sym::u16();
		let length = sym::u16();
		sym::assume(start < CODE_LENGTH && start as u32 + length as u32 > 65535);
		let mut labels = reader::Labels::new(CODE_LENGTH);
		let r = labels.get_or_create_range(start, length);
		assert!(r.is_err(), "a range ending past 65535 must be an error");
		witness!(start == 19 && length == 65535, "largest overflow");
		core::mem::forget(labels);
		core::mem::forget(r);
	}
}
