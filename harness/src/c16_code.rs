//! C16 / C01: the two-pass `Code` reader on tiny code arrays, and the reader's label table.
use crate::{proofs, sym, witness};
use duke::verif::reader;

/// Body of a `Code` attribute around `code`: max_stack, max_locals, code_length, code,
/// empty exception table, no attributes.
fn code_attribute<const N: usize>(code: &[u8; N], len: usize, out: &mut [u8; 16]) -> usize {
	let mut n = 0;
	let head = [0u8, 2, 0, 2, 0, 0, 0, len as u8];
	let mut i = 0;
	while i < 8 { out[n] = head[i]; n += 1; i += 1; }
	let mut i = 0;
	while i < N { if i < len { out[n] = code[i]; n += 1; } i += 1; }
	let mut i = 0;
	while i < 4 { out[n] = 0; n += 1; i += 1; } // exception_table_length = 0, attributes_count = 0
	n
}

//# {"id":"c16_labels_range","props":["C16","C01"],"tier":"quick","cap":1200,"z":["stubbing"],"bound":"code_length = 20 (concrete, it sizes the hash map), all start_pc and length in u16; one or two label-map entries; unwind 8","fns":["duke::class_reader::labels::Labels::{new,get_or_create,get_or_create_range}"],"stubs":["RandomState::new","DefaultHasher::{write,finish}"]}
//# {"id":"c16_read_code_len1","props":["C16","C01"],"tier":"quick","cap":1500,"z":["stubbing"],"bound":"Code attribute with an arbitrary 1-byte code array (every opcode, so every instruction with operands is cut short), empty pool, unit visitor; unwind 8","fns":["duke::class_reader::read_code (both passes)","Labels","PoolRead::read"],"stubs":["RandomState::new","DefaultHasher::{write,finish}"]}
//# {"id":"c16_read_code_len2","props":["C16","C01"],"tier":"thorough","cap":3000,"z":["stubbing"],"bound":"Code attribute with an arbitrary 2-byte code array, empty pool, unit visitor; unwind 8","fns":["read_code (both passes)","Labels","PoolRead::read"],"stubs":["RandomState::new","DefaultHasher::{write,finish}"]}
proofs! {
	#[cfg_attr(kani, kani::unwind(8))]
	#[cfg_attr(kani, kani::stub(std::hash::RandomState::new, crate::hstubs::random_state_new))]
	#[cfg_attr(kani, kani::stub(<std::hash::DefaultHasher as std::hash::Hasher>::write, crate::hstubs::hasher_write))]
	#[cfg_attr(kani, kani::stub(<std::hash::DefaultHasher as std::hash::Hasher>::finish, crate::hstubs::hasher_finish))]
	fn c16_labels_range() {
		const CODE_LENGTH: u16 = 20;
		let start = sym::u16();
		let length = sym::u16();
		let mut labels = reader::Labels::new(CODE_LENGTH);
		let r = labels.get_or_create_range(start, length);
		let end = start as u32 + length as u32;
		// a range is legal iff it starts inside the code and ends at most one past it
		let legal = start < CODE_LENGTH && end <= CODE_LENGTH as u32;
		match &r {
			Ok(range) => {
				assert!(legal, "a range reaching past the end of the code (or past 65535) must be an error");
				let (s, e) = duke::verif::label_range_ids(range);
				assert!((s == e) == (length == 0), "start and end label coincide exactly for the empty range");
			},
			Err(_) => assert!(!legal, "a legal range was rejected"),
		}
		witness!(legal && end == CODE_LENGTH as u32, "range ending exactly at the end of the code");
		witness!(start < CODE_LENGTH && end > 65535, "start_pc + length exceeds 65535");
		core::mem::forget(labels);
		core::mem::forget(r);
	}

	#[cfg_attr(kani, kani::unwind(8))]
	#[cfg_attr(kani, kani::stub(std::hash::RandomState::new, crate::hstubs::random_state_new))]
	#[cfg_attr(kani, kani::stub(<std::hash::DefaultHasher as std::hash::Hasher>::write, crate::hstubs::hasher_write))]
	#[cfg_attr(kani, kani::stub(<std::hash::DefaultHasher as std::hash::Hasher>::finish, crate::hstubs::hasher_finish))]
	fn c16_read_code_len1() {
		let code = [sym::u8()];
		let mut buf = [0u8; 16];
		let n = code_attribute(&code, 1, &mut buf);
		let (pool, _) = reader::Pool::read(&[0, 1]).expect("an empty constant pool");
		// must return (Ok or Err) – any panic / overflow / out-of-bounds is reported by Kani
		let r = reader::read_code(&buf[..n], (), &pool);
		witness!(r.is_ok(), "a complete one-byte instruction");
		witness!(r.is_err(), "an instruction whose operands are cut off, or an unknown opcode");
		core::mem::forget(r);
		core::mem::forget(pool);
	}

	#[cfg_attr(kani, kani::unwind(8))]
	#[cfg_attr(kani, kani::stub(std::hash::RandomState::new, crate::hstubs::random_state_new))]
	#[cfg_attr(kani, kani::stub(<std::hash::DefaultHasher as std::hash::Hasher>::write, crate::hstubs::hasher_write))]
	#[cfg_attr(kani, kani::stub(<std::hash::DefaultHasher as std::hash::Hasher>::finish, crate::hstubs::hasher_finish))]
	fn c16_read_code_len2() {
		let code = [sym::u8(), sym::u8()];
		let mut buf = [0u8; 16];
		let n = code_attribute(&code, 2, &mut buf);
		let (pool, _) = reader::Pool::read(&[0, 1]).expect("an empty constant pool");
		let r = reader::read_code(&buf[..n], (), &pool);
		witness!(r.is_ok(), "two complete instructions or one with a one-byte operand");
		core::mem::forget(r);
		core::mem::forget(pool);
	}
}
