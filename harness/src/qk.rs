//! Small concrete instantiations for quill's generic tree kernels: names are one byte, keys are
//! one byte, nodes carry a one-byte payload. Everything the kernels need from a node goes
//! through the public traits of `quill::tree`.
use crate::sym;
use java_string::JavaStr;
use quill::tree::mappings_diff::Action;
use quill::tree::names::{Names, Namespace};
use quill::tree::{FromKey, GetNames, NodeInfo, NodeJavadocInfo, ToKey};

/// A name: 1 = "a", 2 = "b", 3 = "c" (never empty).
#[derive(Debug, Clone, Copy, PartialEq, Eq)]
pub struct Nm(pub u8);
impl AsRef<JavaStr> for Nm {
	fn as_ref(&self) -> &JavaStr {
		match self.0 { 1 => JavaStr::from_str("a"), 2 => JavaStr::from_str("b"), 3 => JavaStr::from_str("c"), _ => JavaStr::from_str("z") }
	}
}
pub fn any_nm() -> Nm { Nm(sym::u8_in(1, 3)) }
pub fn any_opt_nm() -> Option<Nm> { if sym::bool() { Some(any_nm()) } else { None } }

pub fn ns<const N: usize>(i: usize) -> Namespace<N> { Namespace::new(i).expect("namespace index in range") }

/// Names<2> from two cells.
pub fn names2(a: Option<Nm>, b: Option<Nm>) -> Names<2, Nm> {
	let mut n: Names<2, Nm> = quill::verif::names_none();
	n[ns(0)] = a;
	n[ns(1)] = b;
	n
}
pub fn cells2(n: &Names<2, Nm>) -> [Option<Nm>; 2] { *quill::verif::names_array(n) }

#[derive(Debug, Clone, PartialEq)]
pub struct Info { pub key: u8, pub names: Names<2, Nm> }
impl FromKey<u8> for Info {
	fn from_key(key: u8) -> Info { Info { key, names: quill::verif::names_from_first_name(Nm(key)) } }
}
impl ToKey<u8> for Info {
	fn get_key(&self) -> anyhow::Result<u8> { Ok(self.key) }
}
impl GetNames<2, Nm> for Info {
	fn get_names(&self) -> &Names<2, Nm> { &self.names }
	fn get_names_mut(&mut self) -> &mut Names<2, Nm> { &mut self.names }
}

#[derive(Debug, Clone, PartialEq)]
pub struct Node { pub info: Info, pub payload: u8, pub doc: Option<u8> }
impl NodeInfo<Info> for Node {
	fn get_node_info(&self) -> &Info { &self.info }
	fn get_node_info_mut(&mut self) -> &mut Info { &mut self.info }
	fn new(info: Info) -> Node { Node { info, payload: 0, doc: None } }
}
impl NodeJavadocInfo<Option<u8>> for Node {
	fn get_node_javadoc_info(&self) -> &Option<u8> { &self.doc }
	fn get_node_javadoc_info_mut(&mut self) -> &mut Option<u8> { &mut self.doc }
}

#[derive(Debug, Clone, PartialEq)]
pub struct DiffNode { pub action: Action<Nm>, pub child: u8 }
impl NodeInfo<Action<Nm>> for DiffNode {
	fn get_node_info(&self) -> &Action<Nm> { &self.action }
	fn get_node_info_mut(&mut self) -> &mut Action<Nm> { &mut self.action }
	fn new(action: Action<Nm>) -> DiffNode { DiffNode { action, child: 0 } }
}

pub fn any_action_nm() -> Action<Nm> {
	let tag = sym::u8_in(0, 3);
	let a = any_nm();
	let b = any_nm();
	match tag { 0 => Action::None, 1 => Action::Add(b), 2 => Action::Remove(a), _ => Action::Edit(a, b) }
}
