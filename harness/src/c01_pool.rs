//! C01 / C16: the constant-pool reader on a small symbolic pool (numeric entries only: no Utf8
//! payload, so no string decoding is involved).
use crate::{proofs, sym, witness};
use duke::verif::reader::Pool;

/// JVMS 4.4: size of the entry body after the tag byte, and whether it takes two slots.
fn body(tag: u8) -> (usize, bool) { match tag { 3 | 4 => (4, false), _ => (8, true) } }

//# {"id":"c01_pool_mh_methodref","props":["C01","C16"],"tier":"thorough","cap":3600,"bound":"as c01_pool_mh_fieldref with the Methodref (index 9): kinds 5..=8 are accepted (6 and 7 with interface flag false), every other kind is an error; unwind 14","fns":["PoolRead::{read,get_loadable}","PoolEntry::{as_method_handle,as_method_ref,as_method_ref_or_interface_method_ref}"]}
//# {"id":"c01_pool_mh_imethodref","props":["C01","C16"],"tier":"thorough","cap":3600,"bound":"as c01_pool_mh_fieldref with the InterfaceMethodref (index 10): kinds 6, 7 (interface flag true) and 9 are accepted, every other kind is an error; unwind 14","fns":["PoolRead::{read,get_loadable}","PoolEntry::{as_method_handle,as_interface_method_ref,as_method_ref_or_interface_method_ref}"]}
//# {"id":"c01_pool_mh_fieldref","props":["C01","C16"],"tier":"thorough","cap":3600,"bound":"the same concrete 11-entry pool, MethodHandle referencing the Fieldref (index 6), SYMBOLIC reference_kind (all 256 values): kinds 1..=4 give GetField/GetStatic/PutField/PutStatic, every other kind is an error; unwind 14","fns":["PoolRead::{read,get_loadable}","PoolEntry::{as_loadable,as_method_handle,as_field_ref}"]}
//# {"id":"c01_pool_method_handle","props":["C01","C16"],"tier":"thorough","cap":3600,"bound":"a concrete 11-entry pool (Utf8 A f I ()V, Class, two NameAndType, FieldRef, MethodRef, InterfaceMethodRef) whose last entry is a MethodHandle with SYMBOLIC reference_kind (all 256 values) and SYMBOLIC reference_index (0..=12): get_loadable must yield the JVMS 4.4.8 handle kind for the kind/reference combination and an error otherwise; unwind 14","fns":["PoolRead::{read,get_loadable,get_method_handle}","PoolEntry::{as_loadable,as_method_handle,as_field_ref,as_method_ref,as_interface_method_ref,as_method_ref_or_interface_method_ref}","duke::jstring::from_vec_to_string"]}
//# {"id":"c01_pool_empty","props":["C01","C16"],"tier":"quick","cap":900,"bound":"constant_pool_count 0 or 1 (symbolic; no entries), indices 0, 1, 2 through get_integer / get_long / get_float / get_double: always an error, never a panic; unwind 6","fns":["PoolRead::{read,get,get_integer,get_long,get_float,get_double}"]}
//# {"id":"c01_pool_refs","props":["C01","C16"],"tier":"thorough","cap":3600,"bound":"concrete pool layout [Utf8 of one SYMBOLIC ASCII byte, Class #1, String #1, Integer]: get_utf8 / get_class / get_obj_class / get_loadable at the concrete indices 0..=5: each reference entry resolves through its index to the Utf8 text, class names are validated, a getter of the wrong kind and indices outside the pool are errors; unwind 10","fns":["PoolRead::{read,get,get_utf8,get_class,get_obj_class,get_loadable}","PoolEntry::{as_utf8,as_class,as_obj_class,as_string,as_loadable}","duke::jstring::from_vec_to_string"]}
//# {"id":"c01_pool_one","props":["C01","C16"],"tier":"quick","cap":1200,"bound":"constant_pool_count = 2 or 3 (what a long/double needs), one entry Integer/Float/Long/Double (symbolic tag and payload); every index 0..=3 through every numeric getter; unwind 10","fns":["duke::class_reader::pool::PoolRead::{read,get,get_integer,get_long,get_float,get_double}","duke::ClassRead::{read_u8,read_u16,read_i32,read_i64,read_u32,read_u64}"]}
//# {"id":"c01_pool_numeric","props":["C01","C16"],"tier":"thorough","cap":3600,"bound":"constant_pool_count in 0..=4 (symbolic), first entry Integer/Float/Long/Double with symbolic payload, second entry Integer/Float, buffer possibly truncated by 0..=2 bytes; every index 0..=5 through every numeric getter; unwind 12","fns":["duke::class_reader::pool::PoolRead::{read,get,get_integer,get_long,get_float,get_double}","duke::ClassRead::{read_u8,read_u16,read_i32,read_i64,read_u32,read_u64}"]}

/// reference_kind is a constant in every arm for the nine defined kinds (concrete control flow in the
/// reader's kind dispatch); all other 247 values share one arm with a symbolic kind.
#[inline(always)]
fn mh_arms(refidx: u8) {
	let kind = sym::u8();
	match kind {
		1 => method_handle_body(1, refidx), 2 => method_handle_body(2, refidx), 3 => method_handle_body(3, refidx),
		4 => method_handle_body(4, refidx), 5 => method_handle_body(5, refidx), 6 => method_handle_body(6, refidx),
		7 => method_handle_body(7, refidx), 8 => method_handle_body(8, refidx), 9 => method_handle_body(9, refidx),
		k => method_handle_body(k, refidx),
	}
}

#[inline(always)]
fn method_handle_body(kind: u8, refidx: u8) {
	{
		use duke::tree::method::code::{Handle, Loadable};
		#[rustfmt::skip]
		let buf: [u8; 57] = [
			0, 12,                       // constant_pool_count
			1, 0, 1, b'A',               //  1 Utf8 "A"
			7, 0, 1,                     //  2 Class #1
			1, 0, 1, b'f',               //  3 Utf8 "f"
			1, 0, 1, b'I',               //  4 Utf8 "I"
			12, 0, 3, 0, 4,              //  5 NameAndType f:I
			9, 0, 2, 0, 5,               //  6 Fieldref A.f:I
			1, 0, 3, b'(', b')', b'V',   //  7 Utf8 "()V"
			12, 0, 3, 0, 7,              //  8 NameAndType f:()V
			10, 0, 2, 0, 8,              //  9 Methodref A.f()V
			11, 0, 2, 0, 8,              // 10 InterfaceMethodref A.f()V
			15, kind, 0, refidx,         // 11 MethodHandle
			0, 0, 0, 0, 0,
		];
		let (pool, consumed) = Pool::read(&buf[..52]).expect("a well-formed pool must be read");
		assert!(consumed == 52, "the reader must consume exactly the pool");
		let r = pool.get_loadable(11);
		// JVMS 4.4.8: kinds 1-4 need a Fieldref; 5 and 8 a Methodref; 6 and 7 a Methodref or an InterfaceMethodref; 9 an InterfaceMethodref
		let is_f = refidx == 6; let is_m = refidx == 9; let is_i = refidx == 10;
		let want: Option<u8> = match kind {
			1..=4 => if is_f { Some(kind) } else { None },
			5 | 8 => if is_m { Some(kind) } else { None },
			6 | 7 => if is_m || is_i { Some(kind) } else { None },
			9 => if is_i { Some(kind) } else { None },
			_ => None,
		};
		match (&r, want) {
			(Err(_), None) => {},
			(Ok(Loadable::MethodHandle(h)), Some(k)) => {
				let got = match h {
					Handle::GetField(_) => 1, Handle::GetStatic(_) => 2, Handle::PutField(_) => 3, Handle::PutStatic(_) => 4,
					Handle::InvokeVirtual(_) => 5, Handle::InvokeStatic(..) => 6, Handle::InvokeSpecial(..) => 7, Handle::NewInvokeSpecial(_) => 8, Handle::InvokeInterface(_) => 9,
				};
				assert!(got == k, "reference_kind decoded to the wrong handle kind (JVMS table 5.4.3.5-A)");
				match h {
					Handle::InvokeStatic(_, itf) | Handle::InvokeSpecial(_, itf) => assert!(*itf == is_i, "interface flag must say whether the reference is an InterfaceMethodref"),
					_ => {},
				}
			},
			(Ok(_), Some(_)) => panic!("a MethodHandle entry was loaded as something else"),
			(Ok(_), None) => panic!("an ill-kinded MethodHandle (kind / reference mismatch, unknown kind, dangling index) was accepted"),
			(Err(_), Some(_)) => panic!("a well-formed MethodHandle was rejected"),
		}
		witness!(true, "a method handle entry resolved or rejected");
		core::mem::forget(r); core::mem::forget(pool);
	}
}

#[inline(always)]
fn pool_one_body(t1: u8) {
	let (n1, wide1) = body(t1);
	let mut p1 = [0u8; 8];
	let mut i = 0;
	while i < 8 { p1[i] = sym::u8(); i += 1; }
	// a long/double announces two slots: count = 3; the others count = 2
	let buf: [u8; 11] = [0, if wide1 { 3 } else { 2 }, t1, p1[0], p1[1], p1[2], p1[3], p1[4], p1[5], p1[6], p1[7]];
	let (pool, consumed) = Pool::read(&buf[..3 + n1]).expect("a well-formed one-entry pool must be read");
	assert!(consumed as usize == 3 + n1, "the reader must consume exactly the pool");
	let v32 = i32::from_be_bytes([p1[0], p1[1], p1[2], p1[3]]);
	let v64 = i64::from_be_bytes(p1);
	let mut idx: u16 = 0;
	while idx <= 3 {
		let (gi, gf, gl, gd) = (pool.get_integer(idx), pool.get_float(idx), pool.get_long(idx), pool.get_double(idx));
		if idx == 1 {
			assert!(gi.is_ok() == (t1 == 3) && gf.is_ok() == (t1 == 4) && gl.is_ok() == (t1 == 5) && gd.is_ok() == (t1 == 6), "typed getter must succeed exactly for its tag");
			if let Ok(v) = gi { assert!(v == v32, "Integer value is the big-endian payload"); }
			if let Ok(v) = gf { assert!(v.to_bits() == v32 as u32, "Float bits are the big-endian payload"); }
			if let Ok(v) = gl { assert!(v == v64, "Long value is the big-endian payload"); }
			if let Ok(v) = gd { assert!(v.to_bits() == v64 as u64, "Double bits are the big-endian payload"); }
		} else {
			assert!(gi.is_err() && gf.is_err() && gl.is_err() && gd.is_err(), "index 0, the upper half of a long/double and indices past the pool must be errors");
		}
		core::mem::forget((gi, gf, gl, gd));
		idx += 1;
	}
	core::mem::forget(pool);
}


proofs! {
	#[cfg_attr(kani, kani::unwind(14))]
	fn c01_pool_method_handle() { method_handle_body(sym::u8(), sym::u8_in(0, 12)); }
	#[cfg_attr(kani, kani::unwind(14))]
	fn c01_pool_mh_fieldref() { mh_arms(6); }
	#[cfg_attr(kani, kani::unwind(14))]
	fn c01_pool_mh_methodref() { mh_arms(9); }
	#[cfg_attr(kani, kani::unwind(14))]
	fn c01_pool_mh_imethodref() { mh_arms(10); }


	#[cfg_attr(kani, kani::unwind(6))]
	fn c01_pool_empty() {
		let count = sym::u8_in(0, 1);
		let (pool, consumed) = Pool::read(&[0u8, count]).expect("a pool without entries must be read");
		assert!(consumed == 2, "only the count is consumed");
		// concrete indices (a symbolic index into the heap-allocated pool makes CBMC explore every entry kind)
		let mut idx: u16 = 0;
		while idx <= 2 {
			let (a, b, c, d) = (pool.get_integer(idx), pool.get_long(idx), pool.get_float(idx), pool.get_double(idx));
			assert!(a.is_err() && b.is_err() && c.is_err() && d.is_err(), "an empty pool has no entry at any index");
			core::mem::forget((a, b, c, d));
			idx += 1;
		}
		witness!(count == 1, "constant_pool_count 1: index 1 is the first index past the pool");
		witness!(count == 0, "constant_pool_count 0");
		core::mem::forget(pool);
	}

	#[cfg_attr(kani, kani::unwind(10))]
	fn c01_pool_refs() {
		use duke::tree::method::code::Loadable;
		let x = sym::u8();
		sym::assume(x >= 1 && x < 0x80);
		let valid = !matches!(x, b'.' | b';' | b'[' | b'/');
		#[rustfmt::skip]
		let buf: [u8; 17] = [
			0, 5,            // constant_pool_count
			1, 0, 1, x,      // 1 Utf8 "<x>"
			7, 0, 1,         // 2 Class #1
			8, 0, 1,         // 3 String #1
			3, 0, 0, 0, 9,   // 4 Integer 9
		];
		let (pool, consumed) = Pool::read(&buf).expect("a well-formed pool must be read");
		assert!(consumed == 17, "the reader must consume exactly the pool");
		// Utf8
		let u = pool.get_utf8(1);
		assert!(matches!(&u, Ok(s) if s.as_bytes().len() == 1 && s.as_bytes()[0] == x), "Utf8 text is the payload");
		assert!(pool.get_utf8(2).is_err() && pool.get_utf8(0).is_err() && pool.get_utf8(5).is_err(), "get_utf8 on a Class entry, index 0 and the index past the pool are errors");
		// Class -> Utf8, validated
		let c = pool.get_class(2);
		let o = pool.get_obj_class(2);
		if valid {
			assert!(matches!(&c, Ok(n) if n.as_inner().as_bytes().len() == 1 && n.as_inner().as_bytes()[0] == x), "Class resolves through name_index to the Utf8 text");
			assert!(matches!(&o, Ok(n) if n.as_inner().as_bytes()[0] == x), "same for object class names");
		} else {
			assert!(c.is_err() && o.is_err(), "an illegal class name in the pool is an error");
		}
		assert!(pool.get_class(1).is_err() && pool.get_class(3).is_err() && pool.get_class(4).is_err(), "get_class on a non-Class entry is an error");
		// loadable constants
		let l3 = pool.get_loadable(3);
		assert!(matches!(&l3, Ok(Loadable::String(s)) if s.as_bytes().len() == 1 && s.as_bytes()[0] == x), "String resolves through string_index to the Utf8 text");
		let l4 = pool.get_loadable(4);
		assert!(matches!(&l4, Ok(Loadable::Integer(9))), "Integer constant");
		let l1 = pool.get_loadable(1);
		assert!(l1.is_err(), "a Utf8 entry is not loadable");
		witness!(valid, "a legal one-byte class name");
		witness!(!valid, "an illegal one-byte class name");
		core::mem::forget((u, c, o, l3, l4, l1)); core::mem::forget(pool);
	}

	#[cfg_attr(kani, kani::unwind(10))]
	fn c01_pool_one() {
		// the tag is a constant in every arm (a symbolic tag makes the entry's enum discriminant symbolic, DESIGN.md probe 30)
		match sym::u8_in(3, 6) { 3 => pool_one_body(3), 4 => pool_one_body(4), 5 => pool_one_body(5), _ => pool_one_body(6) }
	}

	#[cfg_attr(kani, kani::unwind(12))]
	fn c01_pool_numeric() {
		let t1 = sym::u8_in(3, 6);
		let t2 = sym::u8_in(3, 4);
		let (n1, wide1) = body(t1);
		// layout: count(2) tag1 body1 tag2 body2(4)
		let mut buf = [0u8; 2 + 1 + 8 + 1 + 4];
		let count = sym::u8_in(0, 4) as u16;
		buf[0] = 0; buf[1] = count as u8;
		buf[2] = t1;
		let mut p1 = [0u8; 8];
		let mut i = 0;
		while i < 8 { p1[i] = sym::u8(); i += 1; }
		let mut i = 0;
		while i < n1 { buf[3 + i] = p1[i]; i += 1; }
		let at2 = 3 + n1;
		buf[at2] = t2;
		let p2 = [sym::u8(), sym::u8(), sym::u8(), sym::u8()];
		let mut i = 0;
		while i < 4 { buf[at2 + 1 + i] = p2[i]; i += 1; }
		let full = at2 + 5;
		let cut = sym::usize_in(0, 2);
		let len = full - cut;

		// reference: slots the pool must have
		let slots1 = if wide1 { 2 } else { 1 };
		// entries needed so that `1 + slots >= count`
		let need_first = count > 1;
		let need_second = count as usize > 1 + slots1;
		let needed = 2 + if need_first { 1 + n1 } else { 0 } + if need_second { 5 } else { 0 };

		let r = Pool::read(&buf[..len]);
		match &r {
			Err(_) => assert!(needed > len, "a complete pool was rejected"),
			Ok((pool, consumed)) => {
				assert!(needed <= len, "a truncated pool was accepted");
				assert!(*consumed as usize == needed, "the reader must consume exactly the pool");
				let v1_32 = i32::from_be_bytes([p1[0], p1[1], p1[2], p1[3]]);
				let v1_64 = i64::from_be_bytes(p1);
				let v2_32 = i32::from_be_bytes(p2);
				let mut idx: u16 = 0;
				while idx <= 5 {
					// which entry sits at idx?  0: none, 1: first, 2: upper half or second, ...
					let which: u8 = if idx == 1 && need_first { 1 } else if need_second && idx as usize == 1 + slots1 { 2 } else { 0 };
					let gi = pool.get_integer(idx);
					let gf = pool.get_float(idx);
					let gl = pool.get_long(idx);
					let gd = pool.get_double(idx);
					match which {
						1 => {
							assert!(gi.is_ok() == (t1 == 3) && gf.is_ok() == (t1 == 4) && gl.is_ok() == (t1 == 5) && gd.is_ok() == (t1 == 6), "typed getter must succeed exactly for its tag");
							if let Ok(v) = gi { assert!(v == v1_32, "Integer value is the big-endian payload"); }
							if let Ok(v) = gf { assert!(v.to_bits() == v1_32 as u32, "Float bits are the big-endian payload"); }
							if let Ok(v) = gl { assert!(v == v1_64, "Long value is the big-endian payload"); }
							if let Ok(v) = gd { assert!(v.to_bits() == v1_64 as u64, "Double bits are the big-endian payload"); }
						},
						2 => {
							assert!(gi.is_ok() == (t2 == 3) && gf.is_ok() == (t2 == 4) && gl.is_err() && gd.is_err(), "second entry: typed getter must succeed exactly for its tag");
							if let Ok(v) = gi { assert!(v == v2_32, "entry attached to the wrong index"); }
							if let Ok(v) = gf { assert!(v.to_bits() == v2_32 as u32, "entry attached to the wrong index"); }
						},
						_ => assert!(gi.is_err() && gf.is_err() && gl.is_err() && gd.is_err(), "index 0, the upper half of a long/double and indices past the pool must be errors"),
					}
					core::mem::forget((gi, gf, gl, gd));
					idx += 1;
				}
			},
		}
		witness!(r.is_ok() && wide1 && need_second, "a long/double followed by a second entry at index 3");
		witness!(r.is_err() && cut > 0, "a truncated pool");
		witness!(r.is_ok() && count == 0, "constant_pool_count 0");
		core::mem::forget(r);
	}
}
