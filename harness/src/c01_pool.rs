//! C01 / C16: the constant-pool reader on a small symbolic pool (numeric entries only: no Utf8
//! payload, so no string decoding is involved).
use crate::{proofs, sym, witness};
use duke::verif::reader::Pool;

/// JVMS 4.4: size of the entry body after the tag byte, and whether it takes two slots.
fn body(tag: u8) -> (usize, bool) { match tag { 3 | 4 => (4, false), _ => (8, true) } }

//# {"id":"c01_pool_numeric","props":["C01","C16"],"tier":"quick","cap":1200,"bound":"constant_pool_count in 0..=4 (symbolic), first entry Integer/Float/Long/Double with symbolic payload, second entry Integer/Float, buffer possibly truncated by 0..=2 bytes; every index 0..=5 through every numeric getter; unwind 12","fns":["duke::class_reader::pool::PoolRead::{read,get,get_integer,get_long,get_float,get_double}","duke::ClassRead::{read_u8,read_u16,read_i32,read_i64,read_u32,read_u64}"]}
proofs! {
	#[cfg_attr(kani, kani::unwind(12))]
	fn c01_pool_numeric() {
		let t1 = sym::u8_in(3, 6);
		let t2 = sym::u8_in(3, 4);
		let (n1, wide1) = body(t1);
		// layout: count(2) tag1 body1 tag2 body2(4)
		let mut buf = [0u8; 2 + 1 + 8 + 1 + 4];
		let count = sym::u8_in(0, 4) as u16;
		buf[0] = 0; buf[1] = count as u8;
		buf[2] = t1;
		let mut p1 = [0u8; 8];
		let mut i = 0;
		while i < 8 { p1[i] = sym::u8(); i += 1; }
		let mut i = 0;
		while i < n1 { buf[3 + i] = p1[i]; i += 1; }
		let at2 = 3 + n1;
		buf[at2] = t2;
		let p2 = [sym::u8(), sym::u8(), sym::u8(), sym::u8()];
		let mut i = 0;
		while i < 4 { buf[at2 + 1 + i] = p2[i]; i += 1; }
		let full = at2 + 5;
		let cut = sym::usize_in(0, 2);
		let len = full - cut;

		// reference: slots the pool must have
		let slots1 = if wide1 { 2 } else { 1 };
		// entries needed so that `1 + slots >= count`
		let need_first = count > 1;
		let need_second = count as usize > 1 + slots1;
		let needed = 2 + if need_first { 1 + n1 } else { 0 } + if need_second { 5 } else { 0 };

		let r = Pool::read(&buf[..len]);
		match &r {
			Err(_) => assert!(needed > len, "a complete pool was rejected"),
			Ok((pool, consumed)) => {
				assert!(needed <= len, "a truncated pool was accepted");
				assert!(*consumed as usize == needed, "the reader must consume exactly the pool");
				let v1_32 = i32::from_be_bytes([p1[0], p1[1], p1[2], p1[3]]);
				let v1_64 = i64::from_be_bytes(p1);
				let v2_32 = i32::from_be_bytes(p2);
				let mut idx: u16 = 0;
				while idx <= 5 {
					// which entry sits at idx?  0: none, 1: first, 2: upper half or second, ...
					let which: u8 = if idx == 1 && need_first { 1 } else if need_second && idx as usize == 1 + slots1 { 2 } else { 0 };
					let gi = pool.get_integer(idx);
					let gf = pool.get_float(idx);
					let gl = pool.get_long(idx);
					let gd = pool.get_double(idx);
					match which {
						1 => {
							assert!(gi.is_ok() == (t1 == 3) && gf.is_ok() == (t1 == 4) && gl.is_ok() == (t1 == 5) && gd.is_ok() == (t1 == 6), "typed getter must succeed exactly for its tag");
							if let Ok(v) = gi { assert!(v == v1_32, "Integer value is the big-endian payload"); }
							if let Ok(v) = gf { assert!(v.to_bits() == v1_32 as u32, "Float bits are the big-endian payload"); }
							if let Ok(v) = gl { assert!(v == v1_64, "Long value is the big-endian payload"); }
							if let Ok(v) = gd { assert!(v.to_bits() == v1_64 as u64, "Double bits are the big-endian payload"); }
						},
						2 => {
							assert!(gi.is_ok() == (t2 == 3) && gf.is_ok() == (t2 == 4) && gl.is_err() && gd.is_err(), "second entry: typed getter must succeed exactly for its tag");
							if let Ok(v) = gi { assert!(v == v2_32, "entry attached to the wrong index"); }
							if let Ok(v) = gf { assert!(v.to_bits() == v2_32 as u32, "entry attached to the wrong index"); }
						},
						_ => assert!(gi.is_err() && gf.is_err() && gl.is_err() && gd.is_err(), "index 0, the upper half of a long/double and indices past the pool must be errors"),
					}
					core::mem::forget((gi, gf, gl, gd));
					idx += 1;
				}
			},
		}
		witness!(r.is_ok() && wide1 && need_second, "a long/double followed by a second entry at index 3");
		witness!(r.is_err() && cut > 0, "a truncated pool");
		witness!(r.is_ok() && count == 0, "constant_pool_count 0");
		core::mem::forget(r);
	}
}
