//! Kani stubs that make `std::collections::HashMap/HashSet` executable symbolically
//! (DESIGN.md §4.4): constant hasher keys instead of the OS random source, and a hasher that
//! maps every key to hash 0. hashbrown then resolves every lookup through `Eq`, which is
//! semantically exact (only slower natively) – so no behaviour is hidden by the stub.
#![cfg(kani)]
use std::hash::{DefaultHasher, RandomState};

pub fn random_state_new() -> RandomState {
	// SAFETY: RandomState is two u64 keys.
	unsafe { core::mem::transmute::<[u64; 2], RandomState>([0u64; 2]) }
}
pub fn hasher_write(_h: &mut DefaultHasher, _bytes: &[u8]) {}
pub fn hasher_finish(_h: &DefaultHasher) -> u64 { 0 }
