//! Kani stubs that make `std::collections::HashMap/HashSet` executable symbolically
//! (DESIGN.md §4.4): constant hasher keys instead of the OS random source, and a hasher that
//! maps every key to hash 0. hashbrown then resolves every lookup through `Eq`, which is
//! semantically exact (only slower natively) – so no behaviour is hidden by the stub.
#![cfg(kani)]
use std::hash::{DefaultHasher, RandomState};

pub fn random_state_new() -> RandomState {
	// SAFETY: RandomState is two u64 keys.
	unsafe { core::mem::transmute::<[u64; 2], RandomState>([0u64; 2]) }
}
pub fn hasher_write(_h: &mut DefaultHasher, _bytes: &[u8]) {}
pub fn hasher_finish(_h: &DefaultHasher) -> u64 { 0 }

// ---------------------------------------------------------------------------------------------
// Allocator model (DESIGN.md §4.6). `std::alloc::{alloc, alloc_zeroed, realloc, dealloc}` are
// replaced by an allocator that hands out blocks of at least SLACK bytes and therefore grows a
// small block in place. The contract of the global allocator is kept (fresh, disjoint blocks;
// `realloc` preserves the common prefix); what is cut is CBMC's byte-wise copy of a block whose
// size is symbolic, which dominates symbolic execution wherever a `Vec`/`JavaString` is pushed
// to in a loop. Not modelled: allocation failure, alignment, and out-of-bounds accesses that stay
// inside the slack of a small block (no memory-safety claim is made by any check).
// ---------------------------------------------------------------------------------------------
use std::alloc::Layout;
extern "C" {
	fn malloc(size: usize) -> *mut u8;
	fn calloc(n: usize, size: usize) -> *mut u8;
	fn free(ptr: *mut u8);
}
pub const SLACK: usize = 64;
pub unsafe fn alloc_stub(layout: Layout) -> *mut u8 { if layout.size() <= SLACK { malloc(SLACK) } else { malloc(layout.size()) } }
pub unsafe fn alloc_zeroed_stub(layout: Layout) -> *mut u8 { if layout.size() <= SLACK { calloc(SLACK, 1) } else { calloc(layout.size(), 1) } }
pub unsafe fn dealloc_stub(ptr: *mut u8, _layout: Layout) { free(ptr) }
pub unsafe fn realloc_stub(ptr: *mut u8, layout: Layout, new_size: usize) -> *mut u8 {
	if new_size <= SLACK && layout.size() <= SLACK { return ptr; }
	let p = if new_size <= SLACK { malloc(SLACK) } else { malloc(new_size) };
	let n = if layout.size() < new_size { layout.size() } else { new_size };
	core::ptr::copy_nonoverlapping(ptr, p, n);
	free(ptr);
	p
}
