//! C18: the validity predicates behind the checked name newtypes, against the documented
//! grammar (`refmodel::grammar`), and the inner-class split/join helpers (shared with C11).
use crate::refmodel::grammar;
use crate::strs::{bytes_eq, SymStr};
use crate::{proofs, sym, witness};
use duke::tree::class::{ArrClassName, ClassName, ObjClassName, ObjClassNameSlice};
use duke::tree::field::FieldName;
use duke::tree::method::code::LocalVariableName;
use duke::tree::method::{MethodName, ParameterName};

fn unqualified_body<const N: usize>(s: &SymStr<N>) {
	let want = grammar::unqualified(s.slice());
	assert!(FieldName::is_valid(s.java()) == want, "FieldName::is_valid differs from JVMS 4.2.2");
	assert!(ParameterName::is_valid(s.java()) == want, "ParameterName::is_valid differs from JVMS 4.2.2");
	assert!(LocalVariableName::is_valid(s.java()) == want, "LocalVariableName::is_valid differs from JVMS 4.2.2");
	witness!(want && s.len == N, "valid name of maximal length");
	witness!(!want && s.len == N && s.bytes[N - 1] == b'/', "name ending in a slash");
}
fn method_name_body<const N: usize>(s: &SymStr<N>) {
	let want = grammar::method_name(s.slice());
	assert!(MethodName::is_valid(s.java()) == want, "MethodName::is_valid differs from JVMS 4.2.2");
	witness!(!want && s.len >= 1 && s.bytes[0] == b'<', "name with an angle bracket");
	witness!(want && s.len == N, "valid method name of maximal length");
}
fn obj_class_body<const N: usize>(s: &SymStr<N>) {
	let want = grammar::obj_class_name(s.slice());
	assert!(ObjClassName::is_valid(s.java()) == want, "ObjClassName::is_valid differs from JVMS 4.2.1");
	witness!(want && s.len == N && s.bytes[1] == b'/', "package-qualified name");
	witness!(!want && s.len == N && s.bytes[0] == b'/', "leading slash");
}
fn class_name_body<const N: usize>(s: &SymStr<N>) {
	let want_arr = grammar::arr_class_name(s.slice());
	let want = grammar::class_name(s.slice());
	assert!(ArrClassName::is_valid(s.java()) == want_arr, "ArrClassName::is_valid differs from 'array field descriptor'");
	assert!(ClassName::is_valid(s.java()) == want, "ClassName::is_valid differs from 'array descriptor or binary name'");
	witness!(want_arr && s.len == N, "valid array class name");
	witness!(!want && s.len >= 1 && s.bytes[0] == b'[', "bracket not followed by a descriptor");
}

//# {"id":"c18_names_unqualified_ascii3","props":["C18","C16"],"tier":"quick","cap":900,"bound":"every ASCII string of length 0..=3; FieldName, ParameterName, LocalVariableName; unwind 6","fns":["duke::tree::names::is_valid_unqualified_name via FieldName/ParameterName/LocalVariableName::is_valid"]}
//# {"id":"c18_names_method_ascii3","props":["C18","C16"],"tier":"quick","cap":900,"bound":"every ASCII string of length 0..=3; unwind 6","fns":["duke::tree::names::is_valid_method_name via MethodName::is_valid"]}
//# {"id":"c18_names_method_special","props":["C18"],"tier":"quick","cap":900,"bound":"the concrete strings <init> <clinit> <init <clinit init> <foo> plus every 1-byte extension of <init>; unwind 12","fns":["is_valid_method_name"]}
//# {"id":"c18_names_obj_class_ascii3","props":["C18","C16"],"tier":"quick","cap":900,"bound":"every ASCII string of length 0..=3; unwind 6","fns":["duke::tree::names::is_valid_obj_class_name via ObjClassName::is_valid"]}
//# {"id":"c18_names_class_ascii3","props":["C18","C16"],"tier":"quick","cap":900,"bound":"every ASCII string of length 0..=3; unwind 6","fns":["is_valid_class_name, is_valid_arr_class_name via ClassName/ArrClassName::is_valid"]}
//# {"id":"c18_names_unqualified_ascii5","props":["C18","C16"],"tier":"quick","cap":900,"bound":"every ASCII string of length 0..=5; unwind 8","fns":["is_valid_unqualified_name"]}
//# {"id":"c18_names_obj_class_ascii5","props":["C18","C16"],"tier":"quick","cap":900,"bound":"every ASCII string of length 0..=5; unwind 8","fns":["is_valid_obj_class_name"]}
//# {"id":"c18_names_class_ascii5","props":["C18","C16"],"tier":"thorough","cap":2400,"bound":"every ASCII string of length 0..=5; unwind 8","fns":["is_valid_class_name","is_valid_arr_class_name"]}
//# {"id":"c18_names_method_ascii5","props":["C18","C16"],"tier":"quick","cap":900,"bound":"every ASCII string of length 0..=5; unwind 8","fns":["is_valid_method_name"]}
proofs! {
	#[cfg_attr(kani, kani::unwind(6))]
	fn c18_names_unqualified_ascii3() { let s = SymStr::<3>::any(0, 3); unqualified_body(&s); }
	#[cfg_attr(kani, kani::unwind(6))]
	fn c18_names_method_ascii3() { let s = SymStr::<3>::any(0, 3); method_name_body(&s); }
	#[cfg_attr(kani, kani::unwind(12))]
	fn c18_names_method_special() {
		use java_string::JavaStr;
		assert!(MethodName::is_valid(JavaStr::from_str("<init>")));
		assert!(MethodName::is_valid(JavaStr::from_str("<clinit>")));
		assert!(!MethodName::is_valid(JavaStr::from_str("<init")));
		assert!(!MethodName::is_valid(JavaStr::from_str("<clinit")));
		assert!(!MethodName::is_valid(JavaStr::from_str("init>")));
		assert!(!MethodName::is_valid(JavaStr::from_str("<foo>")));
		// every one-byte extension of `<init>` is invalid
		let mut b = *b"<init>?";
		let c = sym::u8();
		sym::assume(c >= 1 && c < 0x80);
		b[6] = c;
		// SAFETY: ASCII
		let s = unsafe { JavaStr::from_semi_utf8_unchecked(&b) };
		assert!(!MethodName::is_valid(s));
		witness!(c == b'>', "<init>>");
	}
	#[cfg_attr(kani, kani::unwind(6))]
	fn c18_names_obj_class_ascii3() { let s = SymStr::<3>::any(0, 3); obj_class_body(&s); }
	#[cfg_attr(kani, kani::unwind(6))]
	fn c18_names_class_ascii3() { let s = SymStr::<3>::any(0, 3); class_name_body(&s); }
	#[cfg_attr(kani, kani::unwind(8))]
	fn c18_names_unqualified_ascii5() { let s = SymStr::<5>::any(0, 5); unqualified_body(&s); }
	#[cfg_attr(kani, kani::unwind(8))]
	fn c18_names_obj_class_ascii5() { let s = SymStr::<5>::any(0, 5); obj_class_body(&s); }
	#[cfg_attr(kani, kani::unwind(8))]
	fn c18_names_class_ascii5() { let s = SymStr::<5>::any(0, 5); class_name_body(&s); }
	#[cfg_attr(kani, kani::unwind(8))]
	fn c18_names_method_ascii5() { let s = SymStr::<5>::any(0, 5); method_name_body(&s); }
}

