//! C04: `apply_diff_map` (the four-case merge of a diff map and a target map, used at every
//! level of `MappingsDiff::apply_to`) and `Names::change_name`, instantiated with one-byte keys,
//! names and payloads over the indexmap model.
use crate::qk::*;
use crate::{proofs, sym, witness};
use indexmap::IndexMap;
use quill::tree::mappings_diff::Action;
use quill::tree::names::Names;

/// The child callback: payload 0xFF in the diff node means "child application fails".
fn apply_child(diff: &DiffNode, mut target: Node) -> anyhow::Result<Node> {
	if diff.child == 0xFF { anyhow::bail!("child failed"); }
	target.payload = target.payload.wrapping_add(diff.child);
	Ok(target)
}

#[derive(Clone, Copy)]
struct T { key: u8, name: Option<Nm>, payload: u8 }
#[derive(Clone, Copy)]
struct D { key: u8, action: Action<Nm>, child: u8 }

/// Reference: what applying `d` (or no diff) to target `t` must give: Err, removed (Ok(None)) or the new node.
fn ref_apply_present(t: T, d: D) -> Result<Option<T>, ()> {
	let renamed = match d.action {
		Action::None => Some(t.name),
		Action::Add(b) => if t.name.is_none() { Some(Some(b)) } else { return Err(()) },
		Action::Remove(a) => if t.name == Some(a) { None } else { return Err(()) },
		Action::Edit(a, b) => if t.name == Some(a) { Some(Some(b)) } else { return Err(()) },
	};
	match renamed {
		None => Ok(None), // removal drops the node without looking at the children
		Some(name) => if d.child == 0xFF { Err(()) } else { Ok(Some(T { key: t.key, name, payload: t.payload.wrapping_add(d.child) })) },
	}
}
fn ref_apply_absent(d: D) -> Result<T, ()> {
	match d.action {
		Action::Add(b) => if d.child == 0xFF { Err(()) } else { Ok(T { key: d.key, name: Some(b), payload: d.child }) },
		_ => Err(()),
	}
}

fn node_of(t: T) -> Node { Node { info: Info { key: t.key, names: names2(Some(Nm(t.key)), t.name) }, payload: t.payload, doc: None } }
fn same(n: &Node, t: T) -> bool { n.info.key == t.key && cells2(&n.info.names) == [Some(Nm(t.key)), t.name] && n.payload == t.payload }

fn apply_map_body<const NT: usize, const ND: usize>() {
	let mut ts = [T { key: 0, name: None, payload: 0 }; NT];
	let mut ds = [D { key: 0, action: Action::None, child: 0 }; ND];
	let mut i = 0;
	while i < NT { ts[i] = T { key: sym::u8_in(1, 4), name: any_opt_nm(), payload: sym::u8_in(0, 9) }; i += 1; }
	let mut i = 0;
	while i < ND { let child = sym::u8(); sym::assume(child <= 9 || child == 0xFF); ds[i] = D { key: sym::u8_in(1, 4), action: any_action_nm(), child }; i += 1; }
	// keys are unique inside each map
	if NT == 2 { sym::assume(ts[0].key != ts[NT - 1].key); }
	if ND == 2 { sym::assume(ds[0].key != ds[ND - 1].key); }

	let mut targets: IndexMap<u8, Node> = IndexMap::new();
	let mut diffs: IndexMap<u8, DiffNode> = IndexMap::new();
	let mut i = 0;
	while i < NT { targets.insert(ts[i].key, node_of(ts[i])); i += 1; }
	let mut i = 0;
	while i < ND { diffs.insert(ds[i].key, DiffNode { action: ds[i].action, child: ds[i].child }); i += 1; }

	let got = quill::verif::apply_diff::apply_diff_map(ns::<2>(1), &diffs, targets, apply_child);

	// reference result: targets in order (each with its diff, if any), then the unmatched diffs
	let mut want: [Option<T>; 4] = [None; 4];
	let mut n = 0;
	let mut err = false;
	let mut used = [false; ND];
	let mut i = 0;
	while i < NT {
		let mut hit: Option<usize> = None;
		let mut j = 0;
		while j < ND { if ds[j].key == ts[i].key { hit = Some(j); } j += 1; }
		match hit {
			Some(j) => { used[j] = true; match ref_apply_present(ts[i], ds[j]) { Ok(Some(t)) => { want[n] = Some(t); n += 1; }, Ok(None) => {}, Err(()) => err = true } },
			None => { want[n] = Some(ts[i]); n += 1; },
		}
		i += 1;
	}
	let first_added = n;
	let mut j = 0;
	while j < ND {
		if !used[j] { match ref_apply_absent(ds[j]) { Ok(t) => { want[n] = Some(t); n += 1; }, Err(()) => err = true } }
		j += 1;
	}

	match got {
		Err(_) => assert!(err, "apply_diff_map refused a diff that is consistent with the target"),
		Ok(map) => {
			assert!(!err, "apply_diff_map accepted a diff that is inconsistent with the target");
			assert!(map.len() == n, "wrong number of entries after applying the diff");
			// surviving targets keep their order; additions follow (in any order)
			let mut k = 0;
			while k < n {
				let w = want[k].expect("reference entry");
				let node = map.get(&w.key).expect("an entry the diff keeps or adds is missing");
				assert!(same(node, w), "an entry differs from what the diff says");
				if k < first_added { assert!(map.get_index_of(&w.key) == Some(k), "untouched/edited entries must keep their order"); }
				k += 1;
			}
			core::mem::forget(map);
		},
	}
	witness!(!err && n == NT + ND, "only additions");
	witness!(!err && ND >= 1 && matches!(ds[0].action, Action::Remove(_)) && used[0], "a removal that matches");
	witness!(err && ND >= 1 && used[0] && matches!(ds[0].action, Action::Edit(..)), "an edit whose old value mismatches (or whose child fails)");
	witness!(err && ND >= 1 && !used[0] && !matches!(ds[0].action, Action::Add(_)), "non-addition for an absent key");
}

//# {"id":"c04_change_name","props":["C04"],"tier":"quick","cap":300,"bound":"Names<2, 1-byte name>: every cell content, every namespace index 0..1, every from/to; no loops","fns":["quill::tree::names::Names::<2,_>::change_name"]}
//# {"id":"c04_apply_map_1_1","props":["C04"],"tier":"quick","cap":900,"bound":"apply_diff_map::<2, u8, DiffNode, Node, Nm, Info>: 1 target x 1 diff, keys in 1..=4, every action, every name cell, child ok/failing; indexmap model; unwind 4","fns":["quill::action::apply_diff::apply_diff_map","Names::change_name"]}
//# {"id":"c04_apply_map_2_1","props":["C04"],"tier":"quick","cap":1200,"bound":"2 targets x 1 diff, as above; unwind 5","fns":["apply_diff_map","Names::change_name"]}
//# {"id":"c04_apply_map_1_2","props":["C04"],"tier":"quick","cap":1200,"bound":"1 target x 2 diffs, as above; unwind 5","fns":["apply_diff_map","Names::change_name"]}
//# {"id":"c04_apply_map_2_2","props":["C04"],"tier":"thorough","cap":3000,"bound":"2 targets x 2 diffs, as above; unwind 5","fns":["apply_diff_map","Names::change_name"]}
proofs! {
	fn c04_change_name() {
		let a = any_opt_nm();
		let b = any_opt_nm();
		let from = any_opt_nm();
		let to = any_opt_nm();
		let idx = sym::usize_in(0, 1);
		let mut names = names2(a, b);
		let r = names.change_name(ns(idx), from.as_ref(), to.as_ref());
		let cells = cells2(&names);
		if idx == 0 {
			assert!(r.is_err(), "the first namespace must never be edited");
			assert!(cells == [a, b], "refused change must not modify anything");
		} else if b != from {
			assert!(r.is_err(), "a stated old value that mismatches must be refused");
			assert!(cells == [a, b], "refused change must not modify anything");
		} else {
			assert!(matches!(r, Ok(old) if old == b), "returns the old value");
			assert!(cells == [a, to], "exactly the addressed cell changes");
		}
		witness!(idx == 1 && b == from && b != to, "a real change");
		witness!(idx == 1 && b != from, "mismatching old value");
	}
	#[cfg_attr(kani, kani::unwind(4))]
	fn c04_apply_map_1_1() { apply_map_body::<1, 1>(); }
	#[cfg_attr(kani, kani::unwind(5))]
	fn c04_apply_map_2_1() { apply_map_body::<2, 1>(); }
	#[cfg_attr(kani, kani::unwind(5))]
	fn c04_apply_map_1_2() { apply_map_body::<1, 2>(); }
	#[cfg_attr(kani, kani::unwind(5))]
	fn c04_apply_map_2_2() { apply_map_body::<2, 2>(); }
}

