//! C06: the descriptor scanner `map_desc` (through the public default methods of `ARemapper`),
//! the identity fall-backs, and the inheritance search of the member remapper.
use crate::strs::{bytes_eq, SymStr};
use crate::{proofs, sym, witness};
use anyhow::Result;
use duke::tree::class::{ClassNameSlice, ObjClassName, ObjClassNameSlice};
use duke::tree::descriptor::ReturnDescriptorSlice;
use duke::tree::field::FieldDescriptorSlice;
use duke::tree::method::MethodDescriptorSlice;
use java_string::JavaStr;
use quill::remapper::ARemapper;

/// Hash-free remapper: `a` -> `bb`, `c` -> `d`, everything else unmapped.
struct R;
fn oc(s: &'static str) -> &'static ObjClassNameSlice {
	// SAFETY: the literals used below are valid class names.
	unsafe { ObjClassNameSlice::from_inner_unchecked(JavaStr::from_str(s)) }
}
impl ARemapper for R {
	fn map_class_fail(&self, class: &ObjClassNameSlice) -> Result<Option<ObjClassName>> {
		let b = class.as_inner().as_bytes();
		Ok(if b.len() == 1 && b[0] == b'a' { Some(oc("bb").to_owned()) } else if b.len() == 1 && b[0] == b'c' { Some(oc("d").to_owned()) } else { None })
	}
}
fn ref_map_class(name: &[u8], out: &mut [u8; 24], n: &mut usize) {
	if name.len() == 1 && name[0] == b'a' { out[*n] = b'b'; out[*n + 1] = b'b'; *n += 2; }
	else if name.len() == 1 && name[0] == b'c' { out[*n] = b'd'; *n += 1; }
	else { let mut i = 0; while i < name.len() { out[*n] = name[i]; *n += 1; i += 1; } }
}
/// Reference scanner: copy every byte; after an `L` the bytes up to the next `;` are a class name
/// that is replaced by its mapping. Err iff an `L` is followed directly by `;` or by no `;` at all.
fn ref_map_desc(s: &[u8], out: &mut [u8; 24]) -> Result<usize, ()> {
	let mut n = 0;
	let mut i = 0;
	while i < s.len() {
		out[n] = s[i]; n += 1;
		if s[i] == b'L' {
			let start = i + 1;
			if start >= s.len() || s[start] == b';' { return Err(()); }
			let mut j = start + 1;
			while j < s.len() && s[j] != b';' { j += 1; }
			if j >= s.len() { return Err(()); }
			ref_map_class(&s[start..j], out, &mut n);
			out[n] = b';'; n += 1;
			i = j + 1;
		} else {
			i += 1;
		}
	}
	Ok(n)
}

fn map_desc_body<const N: usize>(s: &SymStr<N>, kind: u8) {
	let mut want = [0u8; 24];
	let w = ref_map_desc(s.slice(), &mut want);
	// SAFETY: descriptor slices accept any content; map_desc itself must cope (it is only given what parse() would accept in production).
	let got: Result<java_string::JavaString> = unsafe {
		match kind {
			0 => R.map_field_desc(FieldDescriptorSlice::from_inner_unchecked(s.java())).map(|d| d.into_inner()),
			1 => R.map_method_desc(MethodDescriptorSlice::from_inner_unchecked(s.java())).map(|d| d.into_inner()),
			_ => R.map_return_desc(ReturnDescriptorSlice::from_inner_unchecked(s.java())).map(|d| d.into_inner()),
		}
	};
	match (&got, w) {
		(Ok(g), Ok(n)) => assert!(bytes_eq(g.as_bytes(), &want[..n]), "exactly the class names inside L...; are rewritten, every other byte is preserved"),
		(Err(_), Err(())) => {},
		(Ok(_), Err(())) => panic!("a descriptor with a dangling L or an empty L; was rewritten instead of refused"),
		(Err(_), Ok(_)) => panic!("a well-formed descriptor was refused"),
	}
	witness!(N == 0 || w.is_err(), "a refused descriptor (dangling L or empty L;)");
	witness!(w.is_ok(), "an accepted descriptor");
	core::mem::forget(got);
}

/// A descriptor from a template: every `?` is a fresh symbolic ASCII byte (it may also be `L` or `;`),
/// every other byte is taken literally. The templates fix the length and the position of the
/// structure bytes, which keeps the formula small; all bytes at `?` are universally quantified.
fn from_template<const N: usize>(t: &[u8; N]) -> SymStr<N> {
	let mut bytes = *t;
	let mut i = 0;
	while i < N {
		if t[i] == b'?' { let b = sym::u8(); sym::assume(b >= 1 && b < 0x80); bytes[i] = b; }
		i += 1;
	}
	SymStr { bytes, len: N }
}
fn template_body<const N: usize>(t: &[u8; N], kind: u8) { let s = from_template(t); map_desc_body(&s, kind); }

//# {"id":"c06_map_desc_len0_2","props":["C06","C08"],"tier":"quick","cap":900,"bound":"every ASCII string of length 0, 1 and 2 as field / method / return descriptor (no L...; can be complete at this length); unwind 5","fns":["quill::remapper::map_desc","ARemapper::{map_field_desc,map_method_desc,map_return_desc,map_class}"]}
//# {"id":"c06_map_desc_t_Lx","props":["C06","C08"],"tier":"quick","cap":900,"bound":"all strings L?; (? = any ASCII byte incl. L and ;): the mapped name a->bb, c->d, unmapped names, L;; and LL; ; unwind 6","lib":"verif","fns":["quill::remapper::map_desc","ARemapper::{map_field_desc,map_class}"]}
//# {"id":"c06_map_desc_t_arr1","props":["C06","C08"],"tier":"quick","cap":900,"lib":"verif","bound":"all strings [[L?; as field descriptor; unwind 8","fns":["quill::remapper::map_desc","ARemapper::{map_field_desc,map_class}"]}
//# {"id":"c06_map_desc_t_m1","props":["C06","C08"],"tier":"quick","cap":900,"lib":"verif","bound":"all strings (IL?;)V as method descriptor; unwind 10","fns":["quill::remapper::map_desc","ARemapper::{map_method_desc,map_class}"]}
//# {"id":"c06_map_desc_t_two","props":["C06","C08"],"tier":"quick","cap":900,"lib":"verif","bound":"all strings La;L?; (a mapped name followed by a second, symbolic one) as return descriptor; unwind 9","fns":["quill::remapper::map_desc","ARemapper::{map_return_desc,map_class}"]}
//# {"id":"c06_map_desc_t_xLx","props":["C06","C08"],"tier":"thorough","cap":3600,"bound":"all strings ?L?; as field descriptor (array / garbage prefix byte, one-byte name); unwind 7","lib":"verif","fns":["quill::remapper::map_desc","ARemapper::{map_field_desc,map_class}"]}
//# {"id":"c06_map_desc_t_Lxx","props":["C06","C08"],"tier":"thorough","cap":3600,"bound":"all strings L??; as return descriptor (two-byte names, early ;); unwind 7","lib":"verif","fns":["quill::remapper::map_desc","ARemapper::{map_return_desc,map_class}"]}
//# {"id":"c06_map_desc_t_Lx_x","props":["C06","C08"],"tier":"quick","cap":900,"bound":"all strings L?;? as field descriptor (a byte after the class name); unwind 7","lib":"verif","fns":["quill::remapper::map_desc","ARemapper::{map_field_desc,map_class}"]}
//# {"id":"c06_map_desc_t_method","props":["C06","C08"],"tier":"thorough","cap":3000,"bound":"all strings (L?;)L?; as method descriptor (two names in one descriptor); unwind 11","lib":"verif","fns":["quill::remapper::map_desc","ARemapper::{map_method_desc,map_class}"]}
//# {"id":"c06_map_desc_t_arr","props":["C06","C08"],"tier":"thorough","cap":3000,"bound":"all strings [[L?/?; as field descriptor (package-qualified name inside an array descriptor); unwind 10","lib":"verif","fns":["quill::remapper::map_desc","ARemapper::{map_field_desc,map_class}"]}
//# {"id":"c06_map_desc_ascii3","props":["C06","C08"],"tier":"thorough","cap":3600,"bound":"every ASCII string of length 0..=3 as field / method / return descriptor; hash-free remapper a->bb, c->d; unwind 6 (exceeded 12 GB in every run so far: expected UNDECIDED)","lib":"verif","fns":["quill::remapper::map_desc","ARemapper::{map_field_desc,map_method_desc,map_return_desc,map_class}"]}
//# {"id":"c06_map_class_defaults","props":["C06"],"tier":"thorough","cap":3600,"bound":"map_class / map_class_any on every valid ASCII class name of length 1..=3 (object names) and on array names [La; [Lx; [[I; unwind 8","lib":"verif","fns":["ARemapper::{map_class,map_class_any}","map_desc"]}
proofs! {
	#[cfg_attr(kani, kani::unwind(5))]
	fn c06_map_desc_len0_2() {
		let kind = sym::u8_in(0, 2);
		match sym::u8_in(0, 2) {
			0 => { let s = SymStr::<0>::exact(); map_desc_body(&s, kind); },
			1 => { let s = SymStr::<1>::exact(); map_desc_body(&s, kind); },
			_ => { let s = SymStr::<2>::exact(); map_desc_body(&s, kind); },
		}
	}
	#[cfg_attr(kani, kani::unwind(6))]
	fn c06_map_desc_t_Lx() { template_body(b"L?;", 0); }
	#[cfg_attr(kani, kani::unwind(8))]
	fn c06_map_desc_t_arr1() { template_body(b"[[L?;", 0); }
	#[cfg_attr(kani, kani::unwind(10))]
	fn c06_map_desc_t_m1() { template_body(b"(IL?;)V", 1); }
	#[cfg_attr(kani, kani::unwind(9))]
	fn c06_map_desc_t_two() { template_body(b"La;L?;", 2); }
	#[cfg_attr(kani, kani::unwind(7))]
	fn c06_map_desc_t_xLx() { template_body(b"?L?;", 0); }
	#[cfg_attr(kani, kani::unwind(7))]
	fn c06_map_desc_t_Lxx() { template_body(b"L??;", 2); }
	#[cfg_attr(kani, kani::unwind(7))]
	fn c06_map_desc_t_Lx_x() { template_body(b"L?;?", 0); }
	#[cfg_attr(kani, kani::unwind(11))]
	fn c06_map_desc_t_method() { template_body(b"(L?;)L?;", 1); }
	#[cfg_attr(kani, kani::unwind(10))]
	fn c06_map_desc_t_arr() { template_body(b"[[L?/?;", 0); }
	#[cfg_attr(kani, kani::unwind(6))]
	fn c06_map_desc_ascii3() { let s = SymStr::<3>::any(0, 3); let kind = sym::u8_in(0, 2); map_desc_body(&s, kind); }

	#[cfg_attr(kani, kani::unwind(8))]
	fn c06_map_class_defaults() {
		use crate::refmodel::grammar;
		let s = SymStr::<3>::any(1, 3);
		sym::assume(grammar::obj_class_name(s.slice()));
		// SAFETY: assumed valid above.
		let name = unsafe { ObjClassNameSlice::from_inner_unchecked(s.java()) };
		let mut want = [0u8; 24]; let mut n = 0;
		ref_map_class(s.slice(), &mut want, &mut n);
		let got = R.map_class(name).expect("map_class cannot fail for this remapper");
		assert!(bytes_eq(got.as_inner().as_bytes(), &want[..n]), "mapped name, or the unchanged name when unmapped");
		let any = R.map_class_any(name.as_class_name()).expect("map_class_any cannot fail on an object name");
		assert!(bytes_eq(any.as_inner().as_bytes(), &want[..n]), "map_class_any agrees with map_class on object names");
		// array names go through the descriptor path
		let which = sym::u8_in(0, 2);
		let (arr, exp): (&str, &str) = match which { 0 => ("[La;", "[Lbb;"), 1 => ("[Lx;", "[Lx;"), _ => ("[[I", "[[I") };
		// SAFETY: valid array class names.
		let arr = unsafe { ClassNameSlice::from_inner_unchecked(JavaStr::from_str(arr)) };
		let got_arr = R.map_class_any(arr).expect("array names are descriptors");
		assert!(bytes_eq(got_arr.as_inner().as_bytes(), exp.as_bytes()), "array class names keep their shape, element class renamed");
		witness!(n == 2 && s.len == 1, "the mapped class");
		core::mem::forget((got, any, got_arr));
	}
}

// ---------------------------------------------------------------------------------------------
// member remapper: own table first, then the super types in declaration order, then identity
// ---------------------------------------------------------------------------------------------
mod inherit {
	use super::*;
	use duke::tree::class::ObjClassName;
	use duke::tree::field::{FieldDescriptor, FieldName, FieldNameSlice};
	use indexmap::IndexSet;
	use quill::remapper::{BRemapper, SuperClassProvider};
	use quill::verif::remapper as hook;

	fn fname(s: &'static str) -> &'static FieldNameSlice { unsafe { FieldNameSlice::from_inner_unchecked(JavaStr::from_str(s)) } }
	fn fdesc(s: &'static str) -> FieldDescriptor { unsafe { FieldDescriptor::from_inner_unchecked(JavaStr::from_str(s).to_owned()) } }

	/// C extends P implements Q; P extends G.
	pub struct Supers { pub of_c: IndexSet<ObjClassName>, pub of_p: IndexSet<ObjClassName>, pub c_known: bool }
	impl SuperClassProvider for Supers {
		fn get_super_classes(&self, class: &ObjClassNameSlice) -> Result<Option<&IndexSet<ObjClassName>>> {
			let b = class.as_inner().as_bytes();
			Ok(if b.len() == 1 && b[0] == b'C' && self.c_known { Some(&self.of_c) } else if b.len() == 1 && b[0] == b'P' { Some(&self.of_p) } else { None })
		}
	}

	/// One concrete hierarchy configuration; the queried field name is a symbolic byte.
	#[inline(always)]
	pub fn cfg_body(in_c: bool, in_p: bool, in_q: bool, q_first: bool) {
		let n = sym::u8();
		sym::assume(n >= 1 && n < 0x80 && !matches!(n, b'.' | b';' | b'[' | b'/'));
		let nb = [n];
		// SAFETY: one ASCII byte that is a valid unqualified name.
		let qname = unsafe { FieldNameSlice::from_inner_unchecked(JavaStr::from_semi_utf8_unchecked(&nb)) };
		let (to_c, to_p, to_q) = (oc("c").to_owned(), oc("p").to_owned(), oc("q").to_owned());
		let entry = |to: &'static str| -> hook::MemberEntry<'static, FieldNameSlice, FieldDescriptor> { ((fname("f"), fdesc("I")), (fname(to), fdesc("I"))) };
		let mut classes = Vec::with_capacity(3);
		classes.push(hook::ClassParts { from: oc("C"), to: &to_c, fields: if in_c { vec![entry("fc")] } else { Vec::new() }, methods: Vec::new() });
		classes.push(hook::ClassParts { from: oc("P"), to: &to_p, fields: if in_p { vec![entry("fp")] } else { Vec::new() }, methods: Vec::new() });
		classes.push(hook::ClassParts { from: oc("Q"), to: &to_q, fields: if in_q { vec![entry("fq")] } else { Vec::new() }, methods: Vec::new() });
		let mut of_c = IndexSet::new();
		if q_first { of_c.insert(oc("Q").to_owned()); of_c.insert(oc("P").to_owned()); } else { of_c.insert(oc("P").to_owned()); of_c.insert(oc("Q").to_owned()); }
		let supers = Supers { of_c, of_p: IndexSet::new(), c_known: true };
		let re = hook::b_remapper_from_parts::<2, Supers>(classes, &supers);
		let via_p: Option<&[u8]> = if in_p { Some(b"fp") } else { None };
		let via_q: Option<&[u8]> = if in_q { Some(b"fq") } else { None };
		let mapped: Option<&[u8]> = if in_c { Some(b"fc") } else if q_first { via_q.or(via_p) } else { via_p.or(via_q) };
		let got = re.map_field(oc("C"), qname, unsafe { duke::tree::field::FieldDescriptorSlice::from_inner_unchecked(JavaStr::from_str("I")) }).expect("lookup cannot fail");
		let g = got.name.as_inner().as_bytes();
		match (n == b'f', mapped) {
			(true, Some(w)) => assert!(bytes_eq(g, w), "field must map through the nearest declaring super type in declaration order"),
			_ => assert!(g.len() == 1 && g[0] == n, "an unmapped member keeps its name"),
		}
		witness!(n == b'f', "the mapped field is queried");
		witness!(n != b'f', "another field is queried");
		core::mem::forget(got); core::mem::forget(re);
		core::mem::forget((supers, to_c, to_p, to_q));
	}

	pub fn body(full: bool) {
		// who declares (= has a mapping for) the field f:I ?
		let in_c = sym::bool(); let in_p = sym::bool(); let in_q = sym::bool(); let in_g = if full { sym::bool() } else { false };
		let c_known = if full { sym::bool() } else { true };     // does the inheritance provider know C at all?
		let p_mapped = if full { sym::bool() } else { true };    // is the intermediate class P part of the mappings?
		let q_first = sym::bool();     // declaration order of C's super types: [Q, P] instead of [P, Q]
		let (to_c, to_p, to_q, to_g, to_cls) = (oc("c").to_owned(), oc("p").to_owned(), oc("q").to_owned(), oc("g").to_owned(), oc("x").to_owned());
		let entry = |to: &'static str| -> hook::MemberEntry<'static, FieldNameSlice, FieldDescriptor> { ((fname("f"), fdesc("I")), (fname(to), fdesc("I"))) };
		let mut classes = Vec::with_capacity(4);
		classes.push(hook::ClassParts { from: oc("C"), to: &to_c, fields: if in_c { vec![entry("fc")] } else { Vec::new() }, methods: Vec::new() });
		if p_mapped { classes.push(hook::ClassParts { from: oc("P"), to: &to_p, fields: if in_p { vec![entry("fp")] } else { Vec::new() }, methods: Vec::new() }); }
		classes.push(hook::ClassParts { from: oc("Q"), to: &to_q, fields: if in_q { vec![entry("fq")] } else { Vec::new() }, methods: Vec::new() });
		classes.push(hook::ClassParts { from: oc("G"), to: &to_g, fields: if in_g { vec![entry("fg")] } else { Vec::new() }, methods: Vec::new() });
		let mut of_c = IndexSet::new();
		if q_first { of_c.insert(oc("Q").to_owned()); of_c.insert(oc("P").to_owned()); } else { of_c.insert(oc("P").to_owned()); of_c.insert(oc("Q").to_owned()); }
		let mut of_p = IndexSet::new();
		of_p.insert(oc("G").to_owned());
		let supers = Supers { of_c, of_p, c_known };
		let re = hook::b_remapper_from_parts::<2, Supers>(classes, &supers);

		// reference: own table, then super types depth-first in declaration order; an unmapped class ends the search below it
		let via_p: Option<&[u8]> = if !p_mapped { None } else if in_p { Some(b"fp") } else if in_g { Some(b"fg") } else { None };
		let via_q: Option<&[u8]> = if in_q { Some(b"fq") } else { None };
		let want: &[u8] = if in_c { b"fc" } else if !c_known { b"f" } else if q_first { via_q.or(via_p).unwrap_or(b"f") } else { via_p.or(via_q).unwrap_or(b"f") };

		let got = re.map_field(oc("C"), fname("f"), unsafe { duke::tree::field::FieldDescriptorSlice::from_inner_unchecked(JavaStr::from_str("I")) }).expect("lookup cannot fail");
		assert!(bytes_eq(got.name.as_inner().as_bytes(), want), "field must map through the nearest declaring super type in declaration order, else keep its name");
		assert!(bytes_eq(got.desc.as_inner().as_bytes(), b"I"), "descriptor without class names is unchanged");
		// a different descriptor is a different member: falls back to the unchanged name
		let other = re.map_field(oc("C"), fname("f"), unsafe { duke::tree::field::FieldDescriptorSlice::from_inner_unchecked(JavaStr::from_str("J")) }).expect("lookup cannot fail");
		assert!(bytes_eq(other.name.as_inner().as_bytes(), b"f"), "members are keyed by name AND descriptor");
		// an owner outside the mappings keeps the name
		let unk = re.map_field(oc("Z"), fname("f"), unsafe { duke::tree::field::FieldDescriptorSlice::from_inner_unchecked(JavaStr::from_str("I")) }).expect("lookup cannot fail");
		assert!(bytes_eq(unk.name.as_inner().as_bytes(), b"f"), "unmapped owner: unchanged name");
		witness!(!in_c && c_known && in_p && in_q && q_first, "declared by both super types, interface listed first");
		witness!(!full || (!in_c && c_known && p_mapped && !in_p && in_g && in_q && !q_first), "grandparent through the first super type beats the second super type");
		witness!(!full || (!in_c && c_known && !p_mapped && in_q), "missing intermediate class");
		core::mem::forget((got, other, unk, re));
		core::mem::forget((supers, to_c, to_p, to_q, to_g, to_cls));
	}
}

//# {"id":"c06_inheritance_cfgs","module":"c06_remap::inherit_proofs","props":["C06"],"tier":"thorough","cap":3600,"bound":"member remapper built from explicit tables (hook b_remapper_from_parts): hierarchy C -> [P, Q] / [Q, P]; 9 concrete configurations of who declares f:I (own class; every subset of the two super types in both declaration orders), the queried field name is a symbolic byte (every valid one-byte name); model indexmap; unwind 8","lib":"verif","fns":["quill::remapper::BRemapperImpl::map_field_fail","BRemapper::map_field","TupleReq/TupleKey Equivalent"]}
//# {"id":"c06_inheritance_order","module":"c06_remap::inherit_proofs","props":["C06"],"tier":"thorough","cap":3600,"bound":"member remapper built from explicit tables (hook b_remapper_from_parts): hierarchy C -> [P, Q] in either order; every subset of {C, P, Q} declaring f:I (16 configurations, symbolic); model indexmap; unwind 8","lib":"verif","fns":["quill::remapper::BRemapperImpl::map_field_fail","BRemapper::map_field","TupleReq/TupleKey Equivalent"]}
//# {"id":"c06_inheritance_search","module":"c06_remap::inherit_proofs","props":["C06"],"tier":"thorough","cap":3600,"bound":"member remapper built from explicit tables (hook b_remapper_from_parts): hierarchy C -> [P, Q] (either order), P -> [G]; every subset of {C, P, Q, G} declaring f:I, P mapped or not, C known to the inheritance provider or not (128 configurations, symbolic); model indexmap; unwind 8","lib":"verif","fns":["quill::remapper::BRemapperImpl::{map_field_fail}","BRemapper::map_field","TupleReq/TupleKey Equivalent"]}
pub mod inherit_proofs {
	use crate::proofs;
	proofs! {
		#[cfg_attr(kani, kani::unwind(8))]
		fn c06_inheritance_search() { super::inherit::body(true); }
		#[cfg_attr(kani, kani::unwind(8))]
		fn c06_inheritance_order() { super::inherit::body(false); }
		#[cfg_attr(kani, kani::unwind(8))]
		fn c06_inheritance_cfgs() {
			use super::inherit::cfg_body as c;
			// nine concrete configurations (constant map shapes in each arm), symbolic queried name
			match crate::sym::u8_in(0, 8) {
				0 => c(true, true, true, false),
				1 => c(false, false, false, false), 2 => c(false, true, false, false), 3 => c(false, false, true, false), 4 => c(false, true, true, false),
				5 => c(false, false, false, true), 6 => c(false, true, false, true), 7 => c(false, false, true, true), _ => c(false, true, true, true),
			}
		}
	}
}
pub use inherit_proofs::{c06_inheritance_search, c06_inheritance_order, c06_inheritance_cfgs};
