//! C02: the jump-encoding helpers of the class writer, decided against the JVMS meaning of the
//! emitted bytes for every opcode position and every target.
use crate::{proofs, sym, witness};
use duke::verif::{self as hook, writer};

const GOTO: u8 = 167;
const JSR: u8 = 168;
const GOTO_W: u8 = 200;
const JSR_W: u8 = 201;

fn be16(w: &[u8], at: usize) -> i16 { i16::from_be_bytes([w[at], w[at + 1]]) }
fn be32(w: &[u8], at: usize) -> i32 { i32::from_be_bytes([w[at], w[at + 1], w[at + 2], w[at + 3]]) }

/// What the JVM does with the emitted bytes when they sit at `pos`: Some(branch target) for the
/// taken branch of the *original* condition, following the `if_not_x +8; goto_w` trampoline.
fn decode_if(w: &[u8], pos: u16, op: u8, opp: u8) -> Option<i64> {
	if w.len() == 3 && w[0] == op {
		Some(pos as i64 + be16(w, 1) as i64)
	} else if w.len() == 8 && w[0] == opp && be16(w, 1) == 8 && w[3] == GOTO_W {
		// the inverted condition skips the 8 bytes; otherwise goto_w at pos+3 jumps
		Some(pos as i64 + 3 + be32(w, 4) as i64)
	} else {
		None
	}
}
fn decode_goto(w: &[u8], pos: u16, op: u8, wide_op: u8) -> Option<i64> {
	if w.len() == 3 && w[0] == op {
		Some(pos as i64 + be16(w, 1) as i64)
	} else if w.len() == 5 && w[0] == wide_op {
		Some(pos as i64 + be32(w, 1) as i64)
	} else {
		None
	}
}

/// Applies the writer's later fix-up (`put_i16_at` / `put_i32_at` of
/// `compute_signed_offset(rec.opcode_pos, t)`) to the reserved slot; `w[0]` sits at `pos`.
/// Returns false when the narrow slot cannot hold the offset (the writer then retries wide).
fn patch(w: &mut [u8], pos: u16, rec: writer::Reserved, t: u16) -> bool {
	let (rec_pos, write_pos, wide) = rec;
	let branch = writer::compute_signed_offset(rec_pos, t);
	let at = write_pos - pos as usize;
	if wide {
		let b = branch.to_be_bytes();
		w[at] = b[0]; w[at + 1] = b[1]; w[at + 2] = b[2]; w[at + 3] = b[3];
		true
	} else if let Ok(b) = i16::try_from(branch) {
		let b = b.to_be_bytes();
		w[at] = b[0]; w[at + 1] = b[1];
		true
	} else {
		false
	}
}

#[inline(always)]
fn goto_body(resolved: bool) {
	let pos = sym::u16();
	let t = sym::u16();
	let make_wide = sym::bool();
	let jsr = sym::bool();
	let (op, wide_op) = if jsr { (JSR, JSR_W) } else { (GOTO, GOTO_W) };
	let label = hook::label_from_id(sym::u16());
	let mut w = Vec::with_capacity(8);
	let r = writer::goto_helper(&mut w, if resolved { Some(t) } else { None }, make_wide, pos, IDX, &label, op, wide_op);
	let rec = r.expect("goto can always be written");
	let off = t as i32 - pos as i32;
	if resolved {
		assert!(rec.is_none());
		assert!(decode_goto(&w, pos, op, wide_op) == Some(t as i64), "emitted bytes do not jump to the target");
		assert!((w.len() == 3) == (off >= -32768 && off <= 32767));
	} else {
		let rec = rec.expect("an unresolved label must reserve a slot");
		assert!(rec.2 == make_wide);
		let fits = patch(&mut w, pos, rec, t);
		if fits {
			assert!(decode_goto(&w, pos, op, wide_op) == Some(t as i64), "patched bytes do not jump to the target");
		} else {
			assert!(!make_wide && (off < -32768 || off > 32767));
		}
	}
	witness!(!resolved || off == -32769, "backward goto_w");
	witness!(resolved || (make_wide && jsr), "reserved jsr_w");
	core::mem::forget(w);
}


const IDX: usize = 7;

//# {"id":"c02_if_helper_resolved","props":["C02"],"tier":"quick","cap":600,"z":["stubbing"],"bound":"all opcode_pos <= 65532 and target in u16, any opcode pair, label already resolved, instruction marked wide or not; one HashMap entry, one HashSet entry (instruction index 7); no loops beyond hashbrown probing (unwind 8)","fns":["duke::simple_class_writer::if_helper","compute_signed_offset","labels::Labels::{new,add_opcode_pos_label,get}"],"stubs":["std::hash::RandomState::new -> constant keys","<DefaultHasher as Hasher>::write -> no-op","<DefaultHasher as Hasher>::finish -> 0"]}
//# {"id":"c02_if_helper_unresolved","props":["C02"],"tier":"quick","cap":600,"z":["stubbing"],"bound":"all opcode_pos <= 65532, all later targets t in u16, any opcode pair, label unresolved, narrow and wide reservation; unwind 8","fns":["if_helper","compute_signed_offset"],"stubs":["RandomState::new","DefaultHasher::{write,finish}"]}
//# {"id":"c02_goto_helper_resolved","props":["C02"],"tier":"quick","cap":900,"z":["stubbing"],"bound":"all opcode_pos and targets in u16, goto/goto_w and jsr/jsr_w, label resolved; unwind 8","fns":["goto_helper","compute_signed_offset"],"stubs":["RandomState::new","DefaultHasher::{write,finish}"]}
//# {"id":"c02_goto_helper_unresolved","props":["C02"],"tier":"quick","cap":900,"z":["stubbing"],"bound":"all opcode_pos and later targets in u16, goto/goto_w and jsr/jsr_w, label unresolved, narrow and wide reservation; unwind 8","fns":["goto_helper","compute_signed_offset"],"stubs":["RandomState::new","DefaultHasher::{write,finish}"]}
//# {"id":"c02_switch_helper","props":["C02"],"tier":"quick","cap":600,"z":["stubbing"],"bound":"all opcode_pos and targets in u16, 0..=3 bytes already in the buffer, resolved / unresolved; alignment padding for every len mod 4; unwind 5","fns":["switch_helper","simple_class_writer::align_to_4_byte_boundary","compute_signed_offset"],"stubs":["RandomState::new","DefaultHasher::{write,finish}"]}
//# {"id":"c02_if_helper_pos_overflow","props":["C02","C16"],"tier":"quick","cap":600,"z":["stubbing"],"bound":"opcode_pos in 65533..=65535 (an instruction that starts in the last three bytes of an over-long method), any target, resolved or wide-unresolved; unwind 8","fns":["if_helper"],"stubs":["RandomState::new","DefaultHasher::{write,finish}"]}
proofs! {
	#[cfg_attr(kani, kani::unwind(8))]
	#[cfg_attr(kani, kani::stub(std::hash::RandomState::new, crate::hstubs::random_state_new))]
	#[cfg_attr(kani, kani::stub(<std::hash::DefaultHasher as std::hash::Hasher>::write, crate::hstubs::hasher_write))]
	#[cfg_attr(kani, kani::stub(<std::hash::DefaultHasher as std::hash::Hasher>::finish, crate::hstubs::hasher_finish))]
	fn c02_if_helper_resolved() {
		let pos = sym::u16();
		sym::assume(pos <= 65532);
		let target = sym::u16();
		let make_wide = sym::bool();
		let op = sym::u8();
		let opp = sym::u8();
		sym::assume(op != opp && op != GOTO_W && opp != GOTO_W);
		let label = hook::label_from_id(sym::u16());
		let mut w = Vec::with_capacity(8);
		let r = writer::if_helper(&mut w, Some(target), make_wide, pos, IDX, &label, op, opp);
		let rec = r.expect("a resolved jump inside the u16 range can always be written");
		assert!(rec.is_none(), "a resolved label must not reserve a slot");
		assert!(decode_if(&w, pos, op, opp) == Some(target as i64), "emitted bytes do not branch to the target");
		let off = target as i32 - pos as i32;
		assert!((w.len() == 3) == (off >= -32768 && off <= 32767), "narrow form used iff the offset fits 16 bits");
		witness!(off == 32767, "largest narrow forward jump");
		witness!(off == 32768, "smallest forward jump that needs the trampoline");
		witness!(off == -32769, "smallest backward jump that needs the trampoline");
		core::mem::forget(w);
	}

	#[cfg_attr(kani, kani::unwind(8))]
	#[cfg_attr(kani, kani::stub(std::hash::RandomState::new, crate::hstubs::random_state_new))]
	#[cfg_attr(kani, kani::stub(<std::hash::DefaultHasher as std::hash::Hasher>::write, crate::hstubs::hasher_write))]
	#[cfg_attr(kani, kani::stub(<std::hash::DefaultHasher as std::hash::Hasher>::finish, crate::hstubs::hasher_finish))]
	fn c02_if_helper_unresolved() {
		let pos = sym::u16();
		sym::assume(pos <= 65532);
		let t = sym::u16();
		let make_wide = sym::bool();
		let op = sym::u8();
		let opp = sym::u8();
		sym::assume(op != opp && op != GOTO_W && opp != GOTO_W);
		let label = hook::label_from_id(sym::u16());
		let mut w = Vec::with_capacity(8);
		let r = writer::if_helper(&mut w, None, make_wide, pos, IDX, &label, op, opp);
		let rec = r.expect("reserving a slot cannot fail").expect("an unresolved label must reserve a slot");
		assert!(rec.2 == make_wide, "wide slot iff the instruction is marked wide");
		assert!(w.len() == if make_wide { 8 } else { 3 });
		// whatever the label later resolves to, the fix-up makes the bytes branch there
		let fits = patch(&mut w, pos, rec, t);
		if fits {
			assert!(decode_if(&w, pos, op, opp) == Some(t as i64), "patched bytes do not branch to the target");
		} else {
			assert!(!make_wide, "a wide slot always fits");
			let off = t as i32 - pos as i32;
			assert!(off < -32768 || off > 32767, "retry requested although the offset fits");
		}
		witness!(!fits, "narrow slot too small: writer must retry wide");
		witness!(fits && make_wide && (t as i32 - pos as i32) > 40000, "wide slot patched with a far target");
		core::mem::forget(w);
	}

	#[cfg_attr(kani, kani::unwind(8))]
	#[cfg_attr(kani, kani::stub(std::hash::RandomState::new, crate::hstubs::random_state_new))]
	#[cfg_attr(kani, kani::stub(<std::hash::DefaultHasher as std::hash::Hasher>::write, crate::hstubs::hasher_write))]
	#[cfg_attr(kani, kani::stub(<std::hash::DefaultHasher as std::hash::Hasher>::finish, crate::hstubs::hasher_finish))]
	fn c02_goto_helper_resolved() { goto_body(true); }
	#[cfg_attr(kani, kani::unwind(8))]
	#[cfg_attr(kani, kani::stub(std::hash::RandomState::new, crate::hstubs::random_state_new))]
	#[cfg_attr(kani, kani::stub(<std::hash::DefaultHasher as std::hash::Hasher>::write, crate::hstubs::hasher_write))]
	#[cfg_attr(kani, kani::stub(<std::hash::DefaultHasher as std::hash::Hasher>::finish, crate::hstubs::hasher_finish))]
	fn c02_goto_helper_unresolved() { goto_body(false); }

	#[cfg_attr(kani, kani::unwind(5))]
	#[cfg_attr(kani, kani::stub(std::hash::RandomState::new, crate::hstubs::random_state_new))]
	#[cfg_attr(kani, kani::stub(<std::hash::DefaultHasher as std::hash::Hasher>::write, crate::hstubs::hasher_write))]
	#[cfg_attr(kani, kani::stub(<std::hash::DefaultHasher as std::hash::Hasher>::finish, crate::hstubs::hasher_finish))]
	fn c02_switch_helper() {
		let pos = sym::u16();
		let t = sym::u16();
		let resolved = sym::bool();
		let label = hook::label_from_id(sym::u16());
		// the opcode byte plus 0..=3 earlier bytes are already in the buffer
		let before = sym::usize_in(1, 4);
		let mut w = Vec::with_capacity(16);
		let mut i = 0;
		while i < before { w.push(0xAA); i += 1; }
		writer::align_to_4_byte_boundary(&mut w).expect("padding cannot fail");
		assert!(w.len() % 4 == 0 && w.len() >= before && w.len() < before + 4, "operands must start 4-aligned with 0..=3 padding bytes");
		let mut k = before;
		while k < w.len() { assert!(w[k] == 0, "padding bytes are zero"); k += 1; }
		let at = w.len();
		let r = writer::switch_helper(&mut w, if resolved { Some(t) } else { None }, pos, IDX, &label);
		let rec = r.expect("a switch arm can always be written");
		assert!(w.len() == at + 4);
		if resolved {
			assert!(rec.is_none());
			assert!(pos as i64 + be32(&w, at) as i64 == t as i64, "switch arm does not designate the target");
		} else {
			let (rec_pos, write_pos, wide) = rec.expect("an unresolved arm must reserve a slot");
			assert!(wide && write_pos == at && rec_pos == pos, "switch arms are 32-bit offsets relative to the switch opcode");
		}
		witness!(before == 2 && at == 4, "two padding bytes");
		witness!(resolved && (t as i32) < (pos as i32), "backward switch arm");
		core::mem::forget(w);
	}

	#[cfg_attr(kani, kani::unwind(8))]
	#[cfg_attr(kani, kani::stub(std::hash::RandomState::new, crate::hstubs::random_state_new))]
	#[cfg_attr(kani, kani::stub(<std::hash::DefaultHasher as std::hash::Hasher>::write, crate::hstubs::hasher_write))]
	#[cfg_attr(kani, kani::stub(<std::hash::DefaultHasher as std::hash::Hasher>::finish, crate::hstubs::hasher_finish))]
	fn c02_if_helper_pos_overflow() {
		// An `if` that starts in the last three bytes of the u16 range belongs to a method that is
		// too long anyway; the helper must report that (or emit bytes) – it must not panic.
		let pos = sym::u16();
		sym::assume(pos >= 65533);
		let target = sym::u16();
		let resolved = sym::bool();
		let label = hook::label_from_id(0);
		let mut w = Vec::with_capacity(8);
		let r = writer::if_helper(&mut w, if resolved { Some(target) } else { None }, true, pos, IDX, &label, 153, 154);
		witness!(r.is_err(), "reported as an error");
		core::mem::forget(w);
		core::mem::forget(r);
	}
}
