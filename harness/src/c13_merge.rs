//! C13: the list kernels of the client/server jar merge, instantiated with `u8`.
use crate::{proofs, sym, witness};
use dukebox::merge::verif as hook;

fn distinct(v: &[u8]) -> bool {
	let mut i = 0;
	while i < v.len() {
		let mut j = i + 1;
		while j < v.len() { if v[i] == v[j] { return false; } j += 1; }
		i += 1;
	}
	true
}
fn count(v: &[u8], x: u8) -> usize { let mut n = 0; let mut i = 0; while i < v.len() { if v[i] == x { n += 1; } i += 1; } n }
fn pos(v: &[u8], x: u8) -> Option<usize> { let mut i = 0; while i < v.len() { if v[i] == x { return Some(i); } i += 1; } None }
/// `a` appears in `r` in the same relative order.
fn subsequence(a: &[u8], r: &[u8]) -> bool {
	let mut i = 0;
	let mut k = 0;
	while k < r.len() && i < a.len() { if r[k] == a[i] { i += 1; } k += 1; }
	i == a.len()
}
/// The orders of `a` and `b` are compatible: their common elements appear in the same relative order.
fn compatible(a: &[u8], b: &[u8]) -> bool {
	let mut i = 0;
	while i < a.len() {
		let mut j = i + 1;
		while j < a.len() {
			if let (Some(p), Some(q)) = (pos(b, a[i]), pos(b, a[j])) { if p > q { return false; } }
			j += 1;
		}
		i += 1;
	}
	true
}

/// Element type: a newtype, so that `slice::contains` is the plain `iter().any()` and not the
/// `u8` memchr specialisation (the merge is used with class/field/method keys, never bytes).
#[derive(Clone, Copy, PartialEq, Eq, Debug)]
pub struct E(pub u8);

fn mpo_body<const NA: usize, const NB: usize, const NR: usize>() {
	let mut a = [0u8; NA];
	let mut b = [0u8; NB];
	let mut i = 0;
	while i < NA { a[i] = sym::u8_in(0, 3); i += 1; }
	let mut i = 0;
	while i < NB { b[i] = sym::u8_in(0, 3); i += 1; }
	sym::assume(distinct(&a) && distinct(&b));
	let mut ea = [E(0); NA];
	let mut eb = [E(0); NB];
	let mut i = 0;
	while i < NA { ea[i] = E(a[i]); i += 1; }
	let mut i = 0;
	while i < NB { eb[i] = E(b[i]); i += 1; }
	let mut r = [0xFFu8; NR];
	let mut n = 0;
	let mut it = hook::merge_preserve_order(&ea[..], &eb[..]);
	while let Some(x) = it.next() {
		assert!(n < NR, "more elements than the two lists hold");
		r[n] = x.0;
		n += 1;
	}
	core::mem::forget(it);
	let r = &r[..n];
	// every element of either list exactly once, nothing else
	let mut v = 0u8;
	while v <= 3 {
		let want = if count(&a, v) + count(&b, v) > 0 { 1 } else { 0 };
		assert!(count(r, v) == want, "an element is lost or duplicated");
		v += 1;
	}
	// relative order of each side preserved whenever the two orders are compatible
	if compatible(&a, &b) {
		assert!(subsequence(&a, r), "client order not preserved although the orders are compatible");
		assert!(subsequence(&b, r), "server order not preserved although the orders are compatible");
	}
	witness!(compatible(&a, &b) && n == NA + NB - 1, "one shared element, compatible orders");
	witness!(!compatible(&a, &b), "incompatible orders");
}

//# {"id":"c13_mpo_1_1","props":["C13"],"tier":"thorough","cap":1500,"bound":"T = newtype over u8, lists of length 1 and 1 over 4 values; unwind 4","lib":"verif","fns":["dukebox::merge::merge_preserve_order::<E(u8)>"]}
//# {"id":"c13_mpo_1_2","props":["C13"],"tier":"thorough","cap":1500,"bound":"T = newtype over u8, duplicate-free lists of length 1 and 2 over 4 values; unwind 5","lib":"verif","fns":["dukebox::merge::merge_preserve_order::<E(u8)>"]}
//# {"id":"c13_mpo_2_1","props":["C13"],"tier":"thorough","cap":6000,"bound":"T = newtype over u8, duplicate-free lists of length 2 and 1 over 4 values; unwind 5","lib":"verif","fns":["merge_preserve_order::<E(u8)>"]}
//# {"id":"c13_mpo_2_2","props":["C13"],"tier":"thorough","cap":6000,"bound":"T = newtype over u8, duplicate-free lists of length 2 and 2 over 4 values; unwind 6","lib":"verif","fns":["merge_preserve_order::<E(u8)>"]}
//# {"id":"c13_mpo_3_2","props":["C13"],"tier":"thorough","cap":3000,"bound":"T = newtype over u8, duplicate-free lists of length 3 and 2 over 4 values; unwind 7","lib":"verif","fns":["merge_preserve_order::<E(u8)>"]}
//# {"id":"c13_mpo_2_3","props":["C13"],"tier":"thorough","cap":3000,"bound":"T = newtype over u8, duplicate-free lists of length 2 and 3 over 4 values; unwind 7","lib":"verif","fns":["merge_preserve_order::<E(u8)>"]}
//# {"id":"c13_mpo_3_3","props":["C13"],"tier":"thorough","cap":3600,"bound":"T = newtype over u8, duplicate-free lists of length 3 and 3 over 4 values; unwind 8","lib":"verif","fns":["merge_preserve_order::<E(u8)>"]}
proofs! {
	#[cfg_attr(kani, kani::unwind(4))]
	fn c13_mpo_1_1() { mpo_body::<1, 1, 2>(); }
	#[cfg_attr(kani, kani::unwind(5))]
	fn c13_mpo_1_2() { mpo_body::<1, 2, 3>(); }
	#[cfg_attr(kani, kani::unwind(5))]
	fn c13_mpo_2_1() { mpo_body::<2, 1, 3>(); }
	#[cfg_attr(kani, kani::unwind(6))]
	fn c13_mpo_2_2() { mpo_body::<2, 2, 4>(); }
	#[cfg_attr(kani, kani::unwind(7))]
	fn c13_mpo_3_2() { mpo_body::<3, 2, 5>(); }
	#[cfg_attr(kani, kani::unwind(7))]
	fn c13_mpo_2_3() { mpo_body::<2, 3, 5>(); }
	#[cfg_attr(kani, kani::unwind(8))]
	fn c13_mpo_3_3() { mpo_body::<3, 3, 6>(); }
}
