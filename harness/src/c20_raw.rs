//! C20: `raw_class_file` writes every `attribute_length` and count field the JVMS prescribes and
//! announces the length it writes. Driven per attribute value on the stack (a whole `ClassFile`
//! does not finish symbolic execution, DESIGN.md §2 probes 20/23), through the add-only hook
//! `raw_class_file::verif::{attribute_write, attribute_len, cp_info_write, cp_info_len}`.
use crate::{proofs, sym, witness};
use raw_class_file::verif as hook;
use raw_class_file::{AttributeInfo, CpInfo, LineNumberTableEntry, MethodParametersEntry, StackMapFrame, VerificationTypeInfo};

fn be16(w: &[u8], at: usize) -> usize { ((w[at] as usize) << 8) | w[at + 1] as usize }
fn be32(w: &[u8], at: usize) -> usize { ((w[at] as usize) << 24) | ((w[at + 1] as usize) << 16) | ((w[at + 2] as usize) << 8) | w[at + 3] as usize }

/// JVMS 4.7: `u2 attribute_name_index; u4 attribute_length; u1 info[attribute_length]` – the
/// length field counts exactly the bytes that follow it; `_len()` announces what `_write` emits.
fn check_frame(attr: &AttributeInfo, name_index: u16) -> Vec<u8> {
	let mut w: Vec<u8> = Vec::with_capacity(32);
	hook::attribute_write(attr, &mut w).expect("writing into a Vec cannot fail");
	assert!(w.len() >= 6, "an attribute has at least a name index and a length");
	assert!(be16(&w, 0) == name_index as usize, "attribute_name_index must be written first, big-endian");
	assert!(be32(&w, 2) == w.len() - 6, "attribute_length must equal the number of bytes that follow it (JVMS 4.7)");
	assert!(hook::attribute_len(attr) as usize == w.len(), "the announced length must equal the number of bytes written");
	w
}

#[inline(always)]
fn framed(attr: AttributeInfo, name_index: u16) -> Vec<u8> { let w = check_frame(&attr, name_index); core::mem::forget(attr); w }

fn u16_list<const N: usize>() -> ([u16; N], Vec<u16>) {
	let mut a = [0u16; N];
	let mut v = Vec::with_capacity(N);
	let mut i = 0;
	while i < N { a[i] = sym::u16(); v.push(a[i]); i += 1; }
	(a, v)
}

/// Attributes whose body is `u2 count; u2 index[count]` (JVMS 4.7.5, 4.7.26, 4.7.29, 4.7.31).
fn index_table_body<const N: usize>() {
	let name = sym::u16();
	let which = sym::u8_in(0, 3);
	let (a, v) = u16_list::<N>();
	// one `check_frame` call per arm: the enum discriminant is a constant at each call site, so
	// symbolic execution follows `_write`/`_len` of that one variant only (a symbolic discriminant
	// makes CBMC walk all ~30 variants including the recursive annotation ones: > 600 s)
	let w = match which {
		0 => framed(AttributeInfo::Exceptions { attribute_name_index: name, exception_index_table: v }, name),
		1 => framed(AttributeInfo::ModulePackages { attribute_name_index: name, package_index: v }, name),
		2 => framed(AttributeInfo::NestMembers { attribute_name_index: name, classes: v }, name),
		_ => framed(AttributeInfo::PermittedSubclasses { attribute_name_index: name, classes: v }, name),
	};
	assert!(w.len() == 8 + 2 * N, "body is a u2 count followed by count u2 indices");
	assert!(be16(&w, 6) == N, "the count field holds the number of entries");
	let mut i = 0;
	while i < N { assert!(be16(&w, 8 + 2 * i) == a[i] as usize, "entries are written in order, big-endian"); i += 1; }
	witness!(which == 2, "NestMembers");
	witness!(which == 0, "Exceptions");
	core::mem::forget(w);
}

/// MethodParameters (JVMS 4.7.24): `u1 parameters_count; { u2 name_index; u2 access_flags }[count]`.
fn method_parameters_body<const N: usize>() {
	let name = sym::u16();
	let mut ps = Vec::with_capacity(N);
	let mut vals = [(0u16, 0u16); N];
	let mut i = 0;
	while i < N { vals[i] = (sym::u16(), sym::u16()); ps.push(MethodParametersEntry { name_index: vals[i].0, access_flags: vals[i].1 }); i += 1; }
	let attr = AttributeInfo::MethodParameters { attribute_name_index: name, parameters: ps };
	let w = check_frame(&attr, name);
	assert!(w.len() == 6 + 1 + 4 * N, "parameters_count is a single byte (JVMS 4.7.24), followed by 4 bytes per parameter");
	assert!(w[6] as usize == N, "parameters_count holds the number of parameters");
	let mut i = 0;
	while i < N { assert!(be16(&w, 7 + 4 * i) == vals[i].0 as usize && be16(&w, 9 + 4 * i) == vals[i].1 as usize, "parameters are written in order"); i += 1; }
	witness!(name == 0x1234, "some name index");
	core::mem::forget(w); core::mem::forget(attr);
}

/// write, check the frame, read back with a one-entry pool naming the attribute: equal value, all bytes consumed
fn roundtrip(attr: AttributeInfo, name: &'static [u8]) {
	let w = check_frame(&attr, 1);
	let mut nm = Vec::with_capacity(name.len());
	let mut i = 0;
	while i < name.len() { nm.push(name[i]); i += 1; }
	let mut pool = Vec::with_capacity(1);
	pool.push(CpInfo::Utf8 { bytes: nm });
	let r = hook::attribute_read(&w, &pool);
	match &r {
		Ok((back, consumed)) => {
			assert!(*consumed == w.len(), "reading must consume exactly the bytes written");
			assert!(*back == attr, "read(write(x)) != x");
		},
		Err(_) => panic!("the bytes just written could not be read back"),
	}
	core::mem::forget(r); core::mem::forget(pool); core::mem::forget(w); core::mem::forget(attr);
}
fn any_vti() -> VerificationTypeInfo {
	let x = sym::u16();
	match sym::u8_in(0, 8) {
		0 => VerificationTypeInfo::Top {}, 1 => VerificationTypeInfo::Integer {}, 2 => VerificationTypeInfo::Float {}, 3 => VerificationTypeInfo::Double {},
		4 => VerificationTypeInfo::Long {}, 5 => VerificationTypeInfo::Null {}, 6 => VerificationTypeInfo::UnintializedThis {},
		7 => VerificationTypeInfo::Object { cpool_index: x }, _ => VerificationTypeInfo::Unintialized { offset: x },
	}
}
fn vec1(v: VerificationTypeInfo) -> Vec<VerificationTypeInfo> { let mut l = Vec::with_capacity(1); l.push(v); l }
#[inline(always)]
fn append(d: u16, locals: Vec<VerificationTypeInfo>) { roundtrip(smt(StackMapFrame::AppendFrame { offset_delta: d, locals }), b"StackMapTable") }
fn two_vti() -> VerificationTypeInfo { if sym::bool() { VerificationTypeInfo::Top {} } else { VerificationTypeInfo::Object { cpool_index: sym::u16() } } }
fn smt(frame: StackMapFrame) -> AttributeInfo { let mut v = Vec::with_capacity(1); v.push(frame); AttributeInfo::StackMapTable { attribute_name_index: 1, entries: v } }

//# {"id":"c20_frame_append_1","props":["C20"],"tier":"thorough","cap":3600,"cover_playback":false,"bound":"StackMapTable with one AppendFrame of 1 local (Top, or Object with symbolic index), symbolic offset: framing, announced length, read(write(x)) == x; unwind 16","fns":["AttributeInfo::{_write,_len,_read}","StackMapFrame::{_write,_len,_read}","VerificationTypeInfo::{_write,_len,_read}","pool_has_utf8"]}
//# {"id":"c20_frame_append_3","props":["C20"],"tier":"thorough","cap":3600,"cover_playback":false,"bound":"... AppendFrame of 3 locals (Integer, Object x, Uninitialized y / Object x, Long, Null; x, y symbolic); unwind 16","fns":["StackMapFrame::{_write,_len,_read}"]}
//# {"id":"c20_frame_chop_full","props":["C20"],"tier":"thorough","cap":3600,"cover_playback":false,"bound":"ChopFrame with k = 1, 2, 3 and FullFrame (1 Object local with symbolic index, 1 Float stack item), symbolic offsets; unwind 16","fns":["StackMapFrame::{_write,_len,_read}"]}
//# {"id":"c20_stack_map_roundtrip","props":["C20"],"tier":"thorough","cap":3600,"cover_playback":false,"bound":"StackMapTable with one frame of each of the seven kinds (symbolic offsets, chop count 1..=3, append with 1..=3 locals, full frame with one local and one stack item, every verification type with symbolic index): attribute_length, announced length, and read(write(x)) == x consuming all bytes; unwind 16","fns":["AttributeInfo::{_write,_len,_read}","StackMapFrame::{_write,_len,_read}","VerificationTypeInfo::{_write,_len,_read}","pool_has_utf8"]}
//# {"id":"c20_simple_roundtrip","props":["C20"],"tier":"quick","cap":1500,"cover_playback":false,"bound":"read(write(x)) == x for EnclosingMethod, NestMembers (2 entries), MethodParameters (1 entry), Exceptions (1 entry) with symbolic field values; unwind 24","fns":["AttributeInfo::{_write,_len,_read}","pool_has_utf8"]}
//# {"id":"c20_attr_fixed","props":["C20"],"tier":"quick","cap":600,"cover_playback":false,"bound":"the nine fixed-size attributes (ConstantValue, EnclosingMethod, Synthetic, Signature, SourceFile, Deprecated, ModuleMainClass, NestHost) with all u16 field values; unwind 8","fns":["raw_class_file::AttributeInfo::{_write,_len}"]}
//# {"id":"c20_index_table_0","props":["C20"],"tier":"quick","cap":600,"cover_playback":false,"bound":"Exceptions / ModulePackages / NestMembers / PermittedSubclasses with 0 entries; unwind 8","fns":["AttributeInfo::{_write,_len}"]}
//# {"id":"c20_index_table_1","props":["C20"],"tier":"quick","cap":600,"cover_playback":false,"bound":"Exceptions / ModulePackages / NestMembers / PermittedSubclasses with 1 entry, all u16 values; unwind 8","fns":["AttributeInfo::{_write,_len}"]}
//# {"id":"c20_index_table_2","props":["C20"],"tier":"quick","cap":900,"cover_playback":false,"bound":"... with 2 entries, all u16 values; unwind 8","fns":["AttributeInfo::{_write,_len}"]}
//# {"id":"c20_method_parameters_0","props":["C20"],"tier":"quick","cap":600,"cover_playback":false,"bound":"MethodParameters with 0 parameters; unwind 8","fns":["AttributeInfo::{_write,_len}","MethodParametersEntry::{_write,_len}"]}
//# {"id":"c20_method_parameters_2","props":["C20"],"tier":"quick","cap":900,"cover_playback":false,"bound":"MethodParameters with 2 parameters, all u16 values; unwind 8","fns":["AttributeInfo::{_write,_len}","MethodParametersEntry::{_write,_len}"]}
//# {"id":"c20_byte_blobs","props":["C20"],"tier":"quick","cap":900,"cover_playback":false,"bound":"SourceDebugExtension / Other with 0..=2 payload bytes (length concrete per branch), LineNumberTable with 1 entry; unwind 8","fns":["AttributeInfo::{_write,_len}","LineNumberTableEntry::{_write,_len}"]}
//# {"id":"c20_cp_info","props":["C20"],"tier":"quick","cap":900,"cover_playback":false,"bound":"every fixed-size constant-pool entry kind with all field values, Utf8 with 0..=2 bytes: tag, layout, announced length; unwind 8","fns":["raw_class_file::CpInfo::{_write,_len}"]}
proofs! {
	#[cfg_attr(kani, kani::unwind(16))]
	fn c20_stack_map_roundtrip() {
		let d8 = sym::u8_in(0, 63);
		let d16 = sym::u16();
		match sym::u8_in(0, 6) {
			0 => roundtrip(smt(StackMapFrame::SameFrame { offset_delta: d8 }), b"StackMapTable"),
			1 => roundtrip(smt(StackMapFrame::SameLocals1StackItemFrame { offset_delta: d8, stack: any_vti() }), b"StackMapTable"),
			2 => roundtrip(smt(StackMapFrame::SameLocals1StackItemFrameExtended { offset_delta: d16, stack: any_vti() }), b"StackMapTable"),
			3 => roundtrip(smt(StackMapFrame::ChopFrame { k: sym::u8_in(1, 3), offset_delta: d16 }), b"StackMapTable"),
			4 => roundtrip(smt(StackMapFrame::SameFrameExtended { offset_delta: d16 }), b"StackMapTable"),
			5 => {
				let n = sym::usize_in(1, 3);
				let mut locals = Vec::with_capacity(3);
				locals.push(any_vti());
				if n >= 2 { locals.push(any_vti()); }
				if n >= 3 { locals.push(any_vti()); }
				roundtrip(smt(StackMapFrame::AppendFrame { offset_delta: d16, locals }), b"StackMapTable")
			},
			_ => {
				let mut locals = Vec::with_capacity(1); locals.push(any_vti());
				let mut stack = Vec::with_capacity(1); stack.push(any_vti());
				roundtrip(smt(StackMapFrame::FullFrame { offset_delta: d16, locals, stack }), b"StackMapTable")
			},
		}
	}

	#[cfg_attr(kani, kani::unwind(16))]
	fn c20_frame_append_1() {
		// every enum discriminant is a constant in each arm (probe 30); offsets and indices are symbolic
		let (d, x) = (sym::u16(), sym::u16());
		if sym::bool() { append(d, vec1(VerificationTypeInfo::Top {})); } else { append(d, vec1(VerificationTypeInfo::Object { cpool_index: x })); }
	}
	#[cfg_attr(kani, kani::unwind(16))]
	fn c20_frame_append_3() {
		let (d, x, y) = (sym::u16(), sym::u16(), sym::u16());
		if sym::bool() {
			let mut l = Vec::with_capacity(3); l.push(VerificationTypeInfo::Integer {}); l.push(VerificationTypeInfo::Object { cpool_index: x }); l.push(VerificationTypeInfo::Unintialized { offset: y });
			append(d, l);
		} else {
			let mut l = Vec::with_capacity(3); l.push(VerificationTypeInfo::Object { cpool_index: x }); l.push(VerificationTypeInfo::Long {}); l.push(VerificationTypeInfo::Null {});
			append(d, l);
		}
	}
	#[cfg_attr(kani, kani::unwind(16))]
	fn c20_frame_chop_full() {
		let (d, x) = (sym::u16(), sym::u16());
		match sym::u8_in(0, 3) {
			0 => roundtrip(smt(StackMapFrame::ChopFrame { k: 1, offset_delta: d }), b"StackMapTable"),
			1 => roundtrip(smt(StackMapFrame::ChopFrame { k: 2, offset_delta: d }), b"StackMapTable"),
			2 => roundtrip(smt(StackMapFrame::ChopFrame { k: 3, offset_delta: d }), b"StackMapTable"),
			_ => roundtrip(smt(StackMapFrame::FullFrame { offset_delta: d, locals: vec1(VerificationTypeInfo::Object { cpool_index: x }), stack: vec1(VerificationTypeInfo::Float {}) }), b"StackMapTable"),
		}
	}

	#[cfg_attr(kani, kani::unwind(24))]
	fn c20_simple_roundtrip() {
		let (x, y) = (sym::u16(), sym::u16());
		match sym::u8_in(0, 3) {
			0 => roundtrip(AttributeInfo::EnclosingMethod { attribute_name_index: 1, class_index: x, method_index: y }, b"EnclosingMethod"),
			1 => { let mut v = Vec::with_capacity(2); v.push(x); v.push(y); roundtrip(AttributeInfo::NestMembers { attribute_name_index: 1, classes: v }, b"NestMembers") },
			2 => { let mut v = Vec::with_capacity(1); v.push(MethodParametersEntry { name_index: x, access_flags: y }); roundtrip(AttributeInfo::MethodParameters { attribute_name_index: 1, parameters: v }, b"MethodParameters") },
			_ => { let mut v = Vec::with_capacity(1); v.push(x); roundtrip(AttributeInfo::Exceptions { attribute_name_index: 1, exception_index_table: v }, b"Exceptions") },
		}
	}

	#[cfg_attr(kani, kani::unwind(8))]
	fn c20_attr_fixed() {
		let name = sym::u16();
		let x = sym::u16();
		let y = sym::u16();
		let which = sym::u8_in(0, 7);
		let w = match which {
			0 => framed(AttributeInfo::ConstantValue { attribute_name_index: name, constantvalue_index: x }, name),
			1 => framed(AttributeInfo::EnclosingMethod { attribute_name_index: name, class_index: x, method_index: y }, name),
			2 => framed(AttributeInfo::Synthetic { attribute_name_index: name }, name),
			3 => framed(AttributeInfo::Signature { attribute_name_index: name, signature_index: x }, name),
			4 => framed(AttributeInfo::SourceFile { attribute_name_index: name, sourcefile_index: x }, name),
			5 => framed(AttributeInfo::Deprecated { attribute_name_index: name }, name),
			6 => framed(AttributeInfo::ModuleMainClass { attribute_name_index: name, main_class_index: x }, name),
			_ => framed(AttributeInfo::NestHost { attribute_name_index: name, host_class_index: x }, name),
		};
		let body = match which { 2 | 5 => 0, 1 => 4, _ => 2 };
		assert!(w.len() == 6 + body, "JVMS body size of the attribute");
		if body >= 2 { assert!(be16(&w, 6) == x as usize); }
		if body == 4 { assert!(be16(&w, 8) == y as usize); }
		witness!(which == 1 && x == 1 && y == 2, "EnclosingMethod");
		witness!(which == 5, "Deprecated");
		core::mem::forget(w);
	}

	#[cfg_attr(kani, kani::unwind(8))]
	fn c20_index_table_0() { index_table_body::<0>(); }
	#[cfg_attr(kani, kani::unwind(8))]
	fn c20_index_table_1() { index_table_body::<1>(); }
	#[cfg_attr(kani, kani::unwind(8))]
	fn c20_index_table_2() { index_table_body::<2>(); }
	#[cfg_attr(kani, kani::unwind(8))]
	fn c20_method_parameters_0() { method_parameters_body::<0>(); }
	#[cfg_attr(kani, kani::unwind(8))]
	fn c20_method_parameters_2() { method_parameters_body::<2>(); }

	#[cfg_attr(kani, kani::unwind(8))]
	fn c20_byte_blobs() {
		let name = sym::u16();
		let b = [sym::u8(), sym::u8()];
		let n = sym::usize_in(0, 2);
		let which = sym::u8_in(0, 2);
		let blob = |n: usize| -> Vec<u8> { let mut v = Vec::with_capacity(2); if n >= 1 { v.push(b[0]); } if n >= 2 { v.push(b[1]); } v };
		let (w, body) = match which {
			0 => (framed(AttributeInfo::SourceDebugExtension { attribute_name_index: name, debug_extension: blob(n) }, name), n),
			1 => (framed(AttributeInfo::Other { attribute_name_index: name, info: blob(n) }, name), n),
			_ => {
				let mut t = Vec::with_capacity(1);
				t.push(LineNumberTableEntry { start_pc: sym::u16(), line_number: sym::u16() });
				(framed(AttributeInfo::LineNumberTable { attribute_name_index: name, line_number_table: t }, name), 2 + 4)
			},
		};
		assert!(w.len() == 6 + body, "attribute body size");
		if which < 2 {
			// the u4 in front of the bytes IS the attribute_length; the bytes follow verbatim
			if n >= 1 { assert!(w[6] == b[0]); }
			if n >= 2 { assert!(w[7] == b[1]); }
		} else {
			assert!(be16(&w, 6) == 1, "line_number_table_length");
		}
		witness!(which == 1 && n == 2, "unknown attribute with two payload bytes");
		witness!(which == 2, "LineNumberTable");
		core::mem::forget(w);
	}

	#[cfg_attr(kani, kani::unwind(8))]
	fn c20_cp_info() {
		let x = sym::u16();
		let y = sym::u16();
		let p = sym::u32();
		let q = sym::u32();
		let k = sym::u8();
		let which = sym::u8_in(0, 16);
		let n = sym::usize_in(0, 2);
		let b = [sym::u8(), sym::u8()];
		// (entry, JVMS tag, JVMS size incl. tag)
		let (e, tag, size): (CpInfo, u8, usize) = match which {
			0 => (CpInfo::Class { name_index: x }, 7, 3),
			1 => (CpInfo::Fieldref { class_index: x, name_and_type_index: y }, 9, 5),
			2 => (CpInfo::Methodref { class_index: x, name_and_type_index: y }, 10, 5),
			3 => (CpInfo::InterfaceMethodref { class_index: x, name_and_type_index: y }, 11, 5),
			4 => (CpInfo::String { string_index: x }, 8, 3),
			5 => (CpInfo::Integer { bytes: p }, 3, 5),
			6 => (CpInfo::Float { bytes: p }, 4, 5),
			7 => (CpInfo::Long { high_bytes: p, low_bytes: q }, 5, 9),
			8 => (CpInfo::Double { high_bytes: p, low_bytes: q }, 6, 9),
			9 => (CpInfo::NameAndType { name_index: x, descriptor_index: y }, 12, 5),
			10 => (CpInfo::MethodHandle { reference_kind: k as _, reference_index: x }, 15, 4), // `as _`: the harness must still build if a field width is changed
			11 => (CpInfo::MethodType { descriptor_index: x }, 16, 3),
			12 => (CpInfo::Dynamic { bootstrap_method_attr_index: x, name_and_type_index: y }, 17, 5),
			13 => (CpInfo::InvokeDynamic { bootstrap_method_attr_index: x, name_and_type_index: y }, 18, 5),
			14 => (CpInfo::Module { name_index: x }, 19, 3),
			15 => (CpInfo::Package { name_index: x }, 20, 3),
			_ => { let mut v = Vec::with_capacity(2); if n >= 1 { v.push(b[0]); } if n >= 2 { v.push(b[1]); } (CpInfo::Utf8 { bytes: v }, 1, 3 + n) },
		};
		let mut w: Vec<u8> = Vec::with_capacity(16);
		hook::cp_info_write(&e, &mut w).expect("writing into a Vec cannot fail");
		assert!(w.len() == size, "JVMS 4.4 size of the entry");
		assert!(w[0] == tag, "JVMS 4.4 tag of the entry");
		assert!(hook::cp_info_len(&e) as usize == w.len(), "the announced length must equal the number of bytes written");
		match which {
			0 | 4 | 11 | 14 | 15 => assert!(be16(&w, 1) == x as usize),
			1 | 2 | 3 | 9 | 12 | 13 => assert!(be16(&w, 1) == x as usize && be16(&w, 3) == y as usize),
			5 | 6 => assert!(be32(&w, 1) == p as usize),
			7 | 8 => assert!(be32(&w, 1) == p as usize && be32(&w, 5) == q as usize, "high word first"),
			10 => assert!(w[1] == k && be16(&w, 2) == x as usize),
			_ => { assert!(be16(&w, 1) == n, "Utf8 length"); if n >= 1 { assert!(w[3] == b[0]); } if n >= 2 { assert!(w[4] == b[1]); } },
		}
		witness!(which == 7 && p == 1 && q == 2, "a long");
		witness!(which == 16 && n == 2, "a two-byte Utf8");
		core::mem::forget(w); core::mem::forget(e);
	}
}
