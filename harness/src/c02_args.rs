//! C02 / C16 / C18: `get_arguments_size` (the `count` operand the writer emits for
//! `invokeinterface`) and the 255-dimension boundary of array descriptors / array class names.
use crate::refmodel::grammar;
use crate::strs::SymStr;
use crate::{proofs, sym, witness};
use duke::tree::class::ArrClassName;
use duke::tree::field::FieldDescriptorSlice;
use duke::tree::method::MethodDescriptorSlice;
use java_string::JavaStr;

fn from_template<const N: usize>(t: &[u8; N]) -> SymStr<N> {
	let mut bytes = *t;
	let mut i = 0;
	while i < N {
		if t[i] == b'?' { let b = sym::u8(); sym::assume(b >= 1 && b < 0x80); bytes[i] = b; }
		i += 1;
	}
	SymStr { bytes, len: N }
}

/// JVMS 4.3.3 / invokeinterface: 1 for the receiver + one slot per parameter, two for a (non-array) long or double.
/// None if the parameter list is not well-formed.
fn ref_args_size(s: &[u8]) -> Option<u32> {
	if s.is_empty() || s[0] != b'(' { return None; }
	let mut i = 1;
	let mut size = 1u32;
	loop {
		if i >= s.len() { return None; }
		if s[i] == b')' { return Some(size); }
		let (t, e) = grammar::field_type(s, i)?;
		size += if t.dims == 0 && matches!(t.base, grammar::Base::Prim(b'D') | grammar::Base::Prim(b'J')) { 2 } else { 1 };
		i = e;
	}
}
fn args_body<const N: usize>(s: &SymStr<N>) {
	// SAFETY: descriptor slices accept any content.
	let desc = unsafe { MethodDescriptorSlice::from_inner_unchecked(s.java()) };
	let got = duke::verif::method_descriptor_arguments_size(desc);
	if let Some(want) = ref_args_size(s.slice()) {
		assert!(matches!(got, Ok(g) if g as u32 == want), "arguments size differs from the JVMS slot count (long/double = 2, arrays = 1)");
	}
	witness!(matches!(ref_args_size(s.slice()), Some(n) if n >= 2), "a well-formed parameter list with at least one parameter");
	core::mem::forget(got);
}

fn brackets<const N: usize>(n: usize, tail: u8) -> [u8; N] { let mut b = [b'['; N]; b[n] = tail; b }

//# {"id":"c02_args_size_t2","props":["C02"],"tier":"quick","cap":900,"bound":"all method descriptors (??)V with ? any ASCII byte (two one-byte parameters, one array parameter, () followed by garbage ...); checked whenever the parameter list is well-formed; unwind 8","fns":["duke::tree::method::MethodDescriptorSlice::get_arguments_size"]}
//# {"id":"c02_args_size_t_arr1","props":["C02"],"tier":"quick","cap":900,"bound":"all method descriptors ([?)V: an array of long/double counts one slot; unwind 8","fns":["MethodDescriptorSlice::get_arguments_size"]}
//# {"id":"c02_args_size_t_arr2","props":["C02"],"tier":"thorough","cap":2400,"bound":"all method descriptors (?[?)V; unwind 9","fns":["MethodDescriptorSlice::get_arguments_size"]}
//# {"id":"c02_args_size_t_arr3","props":["C02"],"tier":"thorough","cap":2400,"bound":"all method descriptors ([??)V; unwind 9","fns":["MethodDescriptorSlice::get_arguments_size"]}
//# {"id":"c02_args_size_t_obj","props":["C02"],"tier":"thorough","cap":2400,"bound":"all method descriptors (L?;?)V: an object parameter followed by a one-byte parameter; unwind 9","fns":["MethodDescriptorSlice::get_arguments_size"]}
//# {"id":"c16_dims_256","props":["C16","C18"],"tier":"thorough","cap":3600,"bound":"the strings [*256 ? (symbolic element byte): FieldDescriptorSlice::parse rejects them and does not overflow; unwind 260","fns":["duke::tree::descriptor::read_field_type","FieldDescriptorSlice::parse"]}
//# {"id":"c18_dims_255","props":["C18","C16"],"tier":"thorough","cap":3600,"bound":"the strings [*255 ? (symbolic element byte): ArrClassName::is_valid accepts exactly the primitive element types; unwind 260","fns":["duke::tree::names::is_valid_arr_class_name","read_field_type"]}
proofs! {
	#[cfg_attr(kani, kani::unwind(8))]
	fn c02_args_size_t2() { let s = from_template(b"(??)V"); args_body(&s); }
	#[cfg_attr(kani, kani::unwind(8))]
	fn c02_args_size_t_arr1() { let s = from_template(b"([?)V"); args_body(&s); }
	#[cfg_attr(kani, kani::unwind(9))]
	fn c02_args_size_t_arr2() { let s = from_template(b"(?[?)V"); args_body(&s); }
	#[cfg_attr(kani, kani::unwind(9))]
	fn c02_args_size_t_arr3() { let s = from_template(b"([??)V"); args_body(&s); }
	#[cfg_attr(kani, kani::unwind(9))]
	fn c02_args_size_t_obj() { let s = from_template(b"(L?;?)V"); args_body(&s); }

	#[cfg_attr(kani, kani::unwind(260))]
	fn c16_dims_256() {
		let e = sym::u8();
		sym::assume(e >= 1 && e < 0x80);
		let b256: [u8; 257] = brackets(256, e);
		// SAFETY: ASCII; descriptor slices accept any content.
		let p256 = unsafe { FieldDescriptorSlice::from_inner_unchecked(JavaStr::from_semi_utf8_unchecked(&b256)).parse() };
		assert!(p256.is_err(), "256 dimensions must be rejected (and must not overflow the dimension counter)");
		witness!(e == b'I', "int[]...[] with 256 dimensions");
		core::mem::forget(p256);
	}
	#[cfg_attr(kani, kani::unwind(260))]
	fn c18_dims_255() {
		let e = sym::u8();
		sym::assume(e >= 1 && e < 0x80);
		let prim = matches!(e, b'B' | b'C' | b'D' | b'F' | b'I' | b'J' | b'S' | b'Z');
		let b255: [u8; 256] = brackets(255, e);
		// SAFETY: ASCII.
		let s255 = unsafe { JavaStr::from_semi_utf8_unchecked(&b255) };
		assert!(ArrClassName::is_valid(s255) == prim, "an array class name may have 255 dimensions (JVMS 4.3.2)");
		witness!(prim, "a primitive element type");
		witness!(!prim, "an illegal element byte");
	}
}
