//! C03 / C04 (kernel level only): the comment escaping of Tiny v2 and the row decoding of the
//! line-oriented readers.
use crate::strs::bytes_eq;
use crate::{proofs, sym, witness};

fn sym_ascii<const N: usize>() -> [u8; N] {
	let mut b = [0u8; N];
	let mut i = 0;
	while i < N { let c = sym::u8(); sym::assume(c >= 1 && c < 0x80); b[i] = c; i += 1; }
	b
}

//# {"id":"c03_escape_roundtrip_2","props":["C03"],"tier":"quick","cap":1500,"bound":"every ASCII comment text of exactly 2 bytes: unescape(escape(s)) == s, and escape(s) contains no line break; unwind 8","fns":["quill::tiny_v2::{escape,unescape}"]}
proofs! {
	#[cfg_attr(kani, kani::unwind(8))]
	fn c03_escape_roundtrip_2() {
		let b = sym_ascii::<2>();
		// SAFETY: ASCII is UTF-8.
		let s = unsafe { core::str::from_utf8_unchecked(&b) };
		let e = quill::verif::tiny_v2_escape(s);
		let mut k = 0;
		while k < e.len() { assert!(e.as_bytes()[k] != b'\n', "an escaped comment must stay on one line"); k += 1; }
		let back = quill::verif::tiny_v2_unescape(e);
		assert!(bytes_eq(back.as_bytes(), &b), "a comment must survive writing and reading back (unescape(escape(s)) == s)");
		witness!(b[0] == b'\n', "a comment with a line break");
		core::mem::forget(back);
	}
}
