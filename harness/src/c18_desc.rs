//! C18: descriptor grammar. Oracle: `refmodel::grammar` (JVMS 4.3.2 over bytes).
use crate::refmodel::grammar::{self, Base, FieldType};
use crate::strs::{bytes_eq, SymStr};
use crate::{proofs, sym, witness};
use duke::tree::descriptor::{ArrayType, ParsedFieldDescriptor, ReturnDescriptorSlice, Type};
use duke::tree::field::FieldDescriptorSlice;
use duke::tree::method::MethodDescriptorSlice;

/// Does the parsed `Type` denote the reference type `want` read from `s`?
fn same_type(t: &Type, want: &FieldType, s: &[u8]) -> bool {
	let prim = |c: u8| -> bool { matches!(want.base, Base::Prim(p) if p == c) };
	if want.dims == 0 {
		match t {
			Type::B => prim(b'B'), Type::C => prim(b'C'), Type::D => prim(b'D'), Type::F => prim(b'F'),
			Type::I => prim(b'I'), Type::J => prim(b'J'), Type::S => prim(b'S'), Type::Z => prim(b'Z'),
			Type::Object(name) => match want.base { Base::Obj(a, b) => bytes_eq(name.as_inner().as_bytes(), &s[a..b]), _ => false },
			Type::Array(..) => false,
		}
	} else {
		match t {
			Type::Array(d, at) => *d as usize == want.dims && match at {
				ArrayType::B => prim(b'B'), ArrayType::C => prim(b'C'), ArrayType::D => prim(b'D'), ArrayType::F => prim(b'F'),
				ArrayType::I => prim(b'I'), ArrayType::J => prim(b'J'), ArrayType::S => prim(b'S'), ArrayType::Z => prim(b'Z'),
				ArrayType::Object(name) => match want.base { Base::Obj(a, b) => bytes_eq(name.as_inner().as_bytes(), &s[a..b]), _ => false },
			},
			_ => false,
		}
	}
}

fn field_desc_body<const N: usize>(s: &SymStr<N>) {
	let want = field_desc_check(s);
	witness!(matches!(want, Some(FieldType { dims: 0, base: Base::Obj(..) })), "object descriptor");
	witness!(matches!(want, Some(FieldType { dims: 2, .. })), "two-dimensional array");
	witness!(want.is_none() && s.len >= 2 && s.bytes[0] == b'L' && s.bytes[s.len - 1] == b';', "L...; with an illegal class name");
}
fn field_desc_check<const N: usize>(s: &SymStr<N>) -> Option<FieldType> {
	// SAFETY: descriptor slices accept any content (check_valid is a TODO in the code under test).
	let desc = unsafe { FieldDescriptorSlice::from_inner_unchecked(s.java()) };
	let want = grammar::field_descriptor(s.slice());
	match (desc.parse(), want) {
		(Ok(ParsedFieldDescriptor(t)), Some(w)) => { assert!(same_type(&t, &w, s.slice()), "parsed structure differs from the JVMS reading"); core::mem::forget(t); },
		(Err(_), None) => {},
		(Ok(p), None) => { core::mem::forget(p); panic!("field descriptor outside the JVMS grammar was accepted"); },
		(Err(_), Some(_)) => panic!("field descriptor inside the JVMS grammar was rejected"),
	}
	want
}

fn return_desc_body<const N: usize>(s: &SymStr<N>) {
	// SAFETY: see above.
	let desc = unsafe { ReturnDescriptorSlice::from_inner_unchecked(s.java()) };
	let want = grammar::return_descriptor(s.slice());
	match (desc.parse(), want) {
		(Ok(p), Some(None)) => { assert!(p.0.is_none(), "V must parse as void"); },
		(Ok(p), Some(Some(w))) => { match &p.0 { Some(t) => assert!(same_type(t, &w, s.slice()), "parsed structure differs from the JVMS reading"), None => panic!("non-void parsed as void") }; core::mem::forget(p); },
		(Err(_), None) => {},
		(Ok(p), None) => { core::mem::forget(p); panic!("return descriptor outside the JVMS grammar was accepted"); },
		(Err(_), Some(_)) => panic!("return descriptor inside the JVMS grammar was rejected"),
	}
	witness!(matches!(want, Some(None)), "void");
	witness!(matches!(want, Some(Some(FieldType { dims: 1, .. }))), "array return type");
}

/// Reference reading of a method descriptor with at most 3 parameters: (params, return) or None.
fn ref_method(s: &[u8]) -> Option<([Option<FieldType>; 3], usize, Option<FieldType>)> {
	if s.is_empty() || s[0] != b'(' { return None; }
	let mut i = 1;
	let mut params = [None; 3];
	let mut n = 0;
	loop {
		if i >= s.len() { return None; }
		if s[i] == b')' { i += 1; break; }
		let (t, e) = grammar::field_type(s, i)?;
		if n >= 3 { return None; } // beyond the harness bound; excluded by the caller's assumption on length
		params[n] = Some(t);
		n += 1;
		i = e;
	}
	if i < s.len() && s[i] == b'V' { return if i + 1 == s.len() { Some((params, n, None)) } else { None }; }
	let (t, e) = grammar::field_type(s, i)?;
	if e != s.len() { return None; }
	Some((params, n, Some(t)))
}

fn method_desc_body<const N: usize>(s: &SymStr<N>) {
	// SAFETY: see above.
	let desc = unsafe { MethodDescriptorSlice::from_inner_unchecked(s.java()) };
	let want = ref_method(s.slice());
	match (desc.parse(), want) {
		(Ok(p), Some((params, n, ret))) => {
			assert!(p.parameter_descriptors.len() == n, "wrong number of parameters");
			let mut k = 0;
			while k < n {
				if let Some(w) = params[k] { assert!(same_type(&p.parameter_descriptors[k], &w, s.slice()), "parameter type differs from the JVMS reading"); }
				k += 1;
			}
			match (&p.return_descriptor, ret) {
				(None, None) => {},
				(Some(t), Some(w)) => assert!(same_type(t, &w, s.slice()), "return type differs from the JVMS reading"),
				_ => panic!("void / non-void confusion"),
			}
			core::mem::forget(p);
		},
		(Err(_), None) => {},
		(Ok(p), None) => { core::mem::forget(p); panic!("method descriptor outside the JVMS grammar was accepted"); },
		(Err(_), Some(_)) => panic!("method descriptor inside the JVMS grammar was rejected"),
	}
	witness!(N < 3 || want.is_some(), "an accepted method descriptor (impossible below three bytes)");
	witness!(want.is_none(), "a rejected string");
}

fn field_roundtrip_body<const N: usize>(s: &SymStr<N>) {
	// SAFETY: see above.
	let desc = unsafe { FieldDescriptorSlice::from_inner_unchecked(s.java()) };
	if let Ok(p) = desc.parse() {
		let w = p.write();
		assert!(bytes_eq(w.as_inner().as_bytes(), s.slice()), "write(parse(s)) != s");
		witness!(s.len == 3 && s.bytes[0] == b'L', "object descriptor printed back");
		witness!(s.len == 3 && s.bytes[0] == b'[' && s.bytes[1] == b'[', "array descriptor printed back");
		core::mem::forget(w);
		core::mem::forget(p);
	}
}
fn method_roundtrip_body<const N: usize>(s: &SymStr<N>) {
	// SAFETY: see above.
	let desc = unsafe { MethodDescriptorSlice::from_inner_unchecked(s.java()) };
	if let Ok(p) = desc.parse() {
		let w = p.write();
		assert!(bytes_eq(w.as_inner().as_bytes(), s.slice()), "write(parse(s)) != s");
		witness!(p.parameter_descriptors.len() == 1, "one parameter printed back");
		core::mem::forget(w);
		core::mem::forget(p);
	}
}

const DESC_ALPHABET: &[u8] = b"BIL;[/a()V.";

//# {"id":"c18_field_desc_t_arrobj","props":["C18","C16"],"tier":"quick","cap":1200,"bound":"all strings [L??; (? = any ASCII byte): arrays of objects with a two-byte class name, incl. [L[I; and [L/a; ; unwind 8","fns":["FieldDescriptorSlice::parse","read_field_type"]}
//# {"id":"c18_field_desc_t_open","props":["C18","C16"],"tier":"quick","cap":900,"bound":"all strings L? and [L? (? = any ASCII byte): an object type whose terminating ; may be missing; unwind 6","fns":["FieldDescriptorSlice::parse","read_field_type"]}
//# {"id":"c18_field_desc_ascii2","props":["C18","C16"],"tier":"quick","cap":900,"bound":"every ASCII string of length 0..=2 (the smaller bound stays decidable when a change to the parser makes the 3-byte harness blow up); unwind 5","fns":["duke::tree::field::FieldDescriptorSlice::parse","duke::tree::descriptor::read_field_type"]}
//# {"id":"c18_field_desc_ascii3","props":["C18","C16"],"tier":"quick","cap":900,"bound":"every ASCII (0x01..0x7F) string of length 0..=3; unwind 6","fns":["duke::tree::field::FieldDescriptorSlice::parse","duke::tree::descriptor::read_field_type"]}
//# {"id":"c18_return_desc_ascii3","props":["C18","C16"],"tier":"quick","cap":900,"bound":"every ASCII string of length 0..=3; unwind 6","fns":["duke::tree::descriptor::ReturnDescriptorSlice::parse","read_field_type"]}
//# {"id":"c18_method_desc_len2","props":["C18","C16"],"tier":"thorough","cap":3000,"bound":"every ASCII string of length exactly 2; unwind 4","fns":["duke::tree::method::MethodDescriptorSlice::parse","read_field_type"]}
//# {"id":"c18_method_desc_ascii3","props":["C18","C16"],"tier":"thorough","cap":3000,"bound":"every ASCII string of length exactly 3; unwind 5","fns":["duke::tree::method::MethodDescriptorSlice::parse","read_field_type"]}
//# {"id":"c18_field_desc_alpha5","props":["C18","C16"],"tier":"quick","cap":1200,"bound":"every string of length 0..=5 over the alphabet B I L ; [ / a ( ) V . ; unwind 8","fns":["FieldDescriptorSlice::parse","read_field_type"]}
//# {"id":"c18_method_desc_alpha5","props":["C18","C16"],"tier":"thorough","cap":2400,"bound":"every string of length 0..=5 over the alphabet B I L ; [ / a ( ) V . ; unwind 8","fns":["MethodDescriptorSlice::parse","read_field_type"]}
//# {"id":"c18_field_roundtrip_ascii3","props":["C18"],"tier":"quick","cap":900,"bound":"every ASCII string of length 0..=3 that parses; unwind 6","fns":["FieldDescriptorSlice::parse","ParsedFieldDescriptor::write","write_field_type"]}
//# {"id":"c18_method_roundtrip_ascii4","props":["C18"],"tier":"thorough","cap":3600,"bound":"every ASCII string of length exactly 4 that parses; unwind 6","fns":["MethodDescriptorSlice::parse","ParsedMethodDescriptor::write","write_field_type"]}
proofs! {
	#[cfg_attr(kani, kani::unwind(6))]
	fn c18_field_roundtrip_ascii3() { let s = SymStr::<3>::any(0, 3); field_roundtrip_body(&s); }
	#[cfg_attr(kani, kani::unwind(6))]
	fn c18_method_roundtrip_ascii4() { let s = SymStr::<4>::exact(); method_roundtrip_body(&s); }
	#[cfg_attr(kani, kani::unwind(8))]
	fn c18_field_desc_t_arrobj() {
		let mut s = SymStr::<5> { bytes: *b"[L??;", len: 5 };
		let (a, b) = (sym::u8(), sym::u8());
		sym::assume(a >= 1 && a < 0x80 && b >= 1 && b < 0x80);
		s.bytes[2] = a; s.bytes[3] = b;
		let want = field_desc_check(&s);
		witness!(want.is_some(), "an array of objects");
		witness!(want.is_none() && a == b'[', "an array descriptor where a class name must stand");
	}
	#[cfg_attr(kani, kani::unwind(6))]
	fn c18_field_desc_t_open() {
		let a = sym::u8();
		sym::assume(a >= 1 && a < 0x80);
		if sym::bool() {
			let s = SymStr::<2> { bytes: [b'L', a], len: 2 };
			let want = field_desc_check(&s);
			assert!(want.is_none(), "L followed by one byte is never a complete descriptor");
		} else {
			let s = SymStr::<3> { bytes: [b'[', b'L', a], len: 3 };
			let want = field_desc_check(&s);
			assert!(want.is_none(), "[L followed by one byte is never a complete descriptor");
		}
		witness!(a == b';', "L; (empty class name)");
		witness!(a == b'A', "LA (terminator missing)");
	}
	#[cfg_attr(kani, kani::unwind(5))]
	fn c18_field_desc_ascii2() {
		let s = SymStr::<2>::any(0, 2);
		let want = field_desc_check(&s);
		witness!(want.is_some(), "a primitive or a one-dimensional primitive array");
		witness!(want.is_none() && s.len == 2 && s.bytes[0] == b'L', "an object descriptor cut short");
	}
	#[cfg_attr(kani, kani::unwind(6))]
	fn c18_field_desc_ascii3() { let s = SymStr::<3>::any(0, 3); field_desc_body(&s); }
	#[cfg_attr(kani, kani::unwind(6))]
	fn c18_return_desc_ascii3() { let s = SymStr::<3>::any(0, 3); return_desc_body(&s); }
	#[cfg_attr(kani, kani::unwind(4))]
	fn c18_method_desc_len2() { let s = SymStr::<2>::exact(); method_desc_body(&s); }
	#[cfg_attr(kani, kani::unwind(5))]
	fn c18_method_desc_ascii3() { let s = SymStr::<3>::exact(); method_desc_body(&s); }
	#[cfg_attr(kani, kani::unwind(8))]
	fn c18_field_desc_alpha5() { let s = SymStr::<5>::over(DESC_ALPHABET, 0, 5); field_desc_body(&s); }
	#[cfg_attr(kani, kani::unwind(8))]
	fn c18_method_desc_alpha5() { let s = SymStr::<5>::over(DESC_ALPHABET, 0, 5); method_desc_body(&s); }
}
