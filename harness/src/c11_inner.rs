//! C11 (and the split/join clause of C18): inner-class name helpers.
use crate::refmodel::grammar;
use crate::strs::{bytes_eq, SymStr};
use crate::{proofs, sym, witness};
use duke::tree::class::{ObjClassName, ObjClassNameSlice};

fn obj<const N: usize>(s: &SymStr<N>) -> &ObjClassNameSlice {
	// SAFETY: callers assume `grammar::obj_class_name` first.
	unsafe { ObjClassNameSlice::from_inner_unchecked(s.java()) }
}
/// Reference: split at the last `$` of the name; refuse empty sides and package crossings.
fn ref_split(s: &[u8]) -> Option<(usize, usize)> {
	let mut i = s.len();
	let mut at = None;
	while i > 0 { i -= 1; if s[i] == b'$' { at = Some(i); break; } }
	let at = at?;
	let parent = &s[..at];
	let inner = &s[at + 1..];
	if parent.is_empty() || inner.is_empty() || parent[parent.len() - 1] == b'/' { return None; }
	let mut k = 0;
	while k < inner.len() { if inner[k] == b'/' { return None; } k += 1; }
	Some((at, at + 1))
}

fn split_join_body<const N: usize>(s: &SymStr<N>) {
	sym::assume(grammar::obj_class_name(s.slice()));
	let name = obj(s);
	let got = name.split_inner_class_parent_and_name();
	let want = ref_split(s.slice());
	match (got, want) {
		(None, None) => {
			assert!(name.get_inner_class_name().is_none() && name.get_inner_class_parent().is_none(), "the accessors must refuse whatever the split refuses");
		},
		(Some((p, i)), Some((pe, is))) => {
			assert!(bytes_eq(p.as_inner().as_bytes(), &s.slice()[..pe]), "parent is the part before the last $");
			assert!(bytes_eq(i.as_inner().as_bytes(), &s.slice()[is..]), "inner name is the part after the last $");
			assert!(grammar::obj_class_name(&s.slice()[..pe]) && grammar::obj_class_name(&s.slice()[is..]), "both halves must be valid class names");
			// the accessors agree with the split
			assert!(name.get_inner_class_parent().map(|x| x.as_inner().len()) == Some(pe));
			assert!(name.get_inner_class_name().map(|x| x.as_inner().len()) == Some(s.len - is));
			// join is the inverse of split
			let joined = ObjClassName::from_inner_class(p.to_owned(), i);
			assert!(bytes_eq(joined.as_inner().as_bytes(), s.slice()), "from_inner_class(split(s)) != s");
			core::mem::forget(joined);
		},
		(Some(_), None) => panic!("split accepted an empty side or a package crossing"),
		(None, Some(_)) => panic!("split refused a proper Outer$Inner name"),
	}
	witness!(want.is_some() && s.len == N, "a nested name of maximal length");
	witness!(want.is_none() && s.len >= 2 && s.bytes[s.len - 1] == b'$', "trailing dollar");
	witness!(want.is_none() && s.len == N && N >= 3 && s.bytes[1] == b'$' && s.bytes[0] != b'$', "dollar followed by a package separator or preceded by one");
}

//# {"id":"c11_split_join_ascii3","props":["C11","C18"],"tier":"quick","cap":1200,"bound":"every valid ASCII object class name of length 1..=3; unwind 6","fns":["duke::tree::class::ObjClassNameSlice::{split_inner_class_parent_and_name,get_inner_class_name,get_inner_class_parent}","ObjClassName::from_inner_class"]}
//# {"id":"c11_split_join_alpha5","props":["C11","C18"],"tier":"quick","cap":900,"bound":"every valid object class name of length 1..=5 over the alphabet a b $ / ; unwind 8","fns":["split_inner_class_parent_and_name","from_inner_class"]}
//# {"id":"c11_split_join_t5","props":["C11","C18"],"tier":"quick","cap":1200,"bound":"every valid class name of length exactly 5 of the form ?$??? / ??$?? / ???$? with ? over the alphabet a $ / (symbolic): package crossings after the dollar, two dollars; unwind 8","fns":["split_inner_class_parent_and_name","get_inner_class_name","get_inner_class_parent","from_inner_class"]}
//# {"id":"c11_contract","props":["C11"],"tier":"quick","cap":1200,"bound":"Names<2, ObjClassName> with a valid ASCII name of length 1..=3 (or none) in namespace 1: contraction keeps only the innermost simple name, namespace 0 untouched; unwind 6","fns":["quill::action::extend_inner_class_names::Names::contract_inner_class_name","ObjClassNameSlice::get_inner_class_name"]}
proofs! {
	#[cfg_attr(kani, kani::unwind(6))]
	fn c11_split_join_ascii3() { let s = SymStr::<3>::any(1, 3); split_join_body(&s); }
	#[cfg_attr(kani, kani::unwind(8))]
	fn c11_split_join_alpha5() { let s = SymStr::<5>::over(b"ab$/", 1, 5); split_join_body(&s); }

	#[cfg_attr(kani, kani::unwind(8))]
	fn c11_split_join_t5() {
		let mut s = SymStr::<5>::over(b"a$/", 5, 5);
		let at = sym::usize_in(1, 3);
		s.bytes[at] = b'$';
		split_join_body(&s);
	}
	#[cfg_attr(kani, kani::unwind(6))]
	fn c11_contract() {
		use quill::tree::names::Names;
		let s = SymStr::<3>::any(1, 3);
		sym::assume(grammar::obj_class_name(s.slice()));
		let present = sym::bool();
		let src = obj(&s).to_owned();
		let mut names: Names<2, ObjClassName> = quill::verif::names_from_first_name(src);
		if present { names[crate::qk::ns(1)] = Some(obj(&s).to_owned()); }
		let r = quill::verif::inner_names::contract_inner_class_name(&names, crate::qk::ns(1)).expect("contraction cannot fail");
		let cells = quill::verif::names_array(&r);
		assert!(matches!(&cells[0], Some(n) if bytes_eq(n.as_inner().as_bytes(), s.slice())), "the source namespace must not change");
		match (&cells[1], present) {
			(None, false) => {},
			(Some(n), true) => {
				let start = match ref_split(s.slice()) { Some((_, is)) => is, None => 0 };
				assert!(bytes_eq(n.as_inner().as_bytes(), &s.slice()[start..]), "contraction keeps exactly the innermost simple name");
			},
			_ => panic!("contraction invented or dropped a name"),
		}
		witness!(present && ref_split(s.slice()).is_some(), "a nested name is contracted");
		core::mem::forget(r); core::mem::forget(names);
	}
}
