//! C01: the tree-building class visitor stores each visited item once and in its own slot
//! ("nothing is invented, dropped or attached to the wrong member", at the level of one visit call).
use crate::{proofs, sym, witness};
use duke::tree::class::{ClassAccess, ClassFile, ClassName, ClassNameSlice, ObjClassNameSlice};
use duke::tree::version::Version;
use duke::visitor::class::ClassVisitor;
use java_string::{JavaStr, JavaString};

fn fresh() -> ClassFile {
	// SAFETY: "A" is a valid class name.
	let name = unsafe { ObjClassNameSlice::from_inner_unchecked(JavaStr::from_str("A")) }.to_owned();
	ClassFile::new(Version::V1_8, ClassAccess::from(0x0021u16), name, None, Vec::new())
}
/// how many of the single-slot facts are set, as a bit set
fn slots(c: &ClassFile) -> u16 {
	(c.inner_classes.is_some() as u16) | (c.enclosing_method.is_some() as u16) << 1 | (c.signature.is_some() as u16) << 2
		| (c.source_file.is_some() as u16) << 3 | (c.source_debug_extension.is_some() as u16) << 4 | (c.module.is_some() as u16) << 5
		| (c.module_packages.is_some() as u16) << 6 | (c.module_main_class.is_some() as u16) << 7 | (c.nest_host_class.is_some() as u16) << 8
		| (c.nest_members.is_some() as u16) << 9 | (c.permitted_subclasses.is_some() as u16) << 10
}
fn one_byte_class(x: u8) -> ClassName {
	let b = [x];
	// SAFETY: the caller assumes a byte that is a valid one-byte class name.
	unsafe { ClassNameSlice::from_inner_unchecked(JavaStr::from_semi_utf8_unchecked(&b)) }.to_owned()
}
fn is(c: &Option<ClassName>, x: u8) -> bool { matches!(c, Some(n) if n.as_inner().as_bytes().len() == 1 && n.as_inner().as_bytes()[0] == x) }
fn is_str(c: &Option<JavaString>, x: u8) -> bool { matches!(c, Some(n) if n.as_bytes().len() == 1 && n.as_bytes()[0] == x) }

//# {"id":"c01_tree_member_slots","props":["C01"],"tier":"quick","cap":1200,"bound":"ClassFile as ClassVisitor, Method as MethodVisitor: two methods (symbolic one-byte names, symbolic access words) and one field visited in the order method, field, method; the first method receives Exceptions (one symbolic class), Deprecated/Synthetic flags and a Code: members end up in their own list in visit order with the visited access / name / descriptor, and the method-level facts stay with the method they were visited on; unwind 6","fns":["<impl ClassVisitor for ClassFile>::{visit_method,finish_method,visit_field,finish_field}","<impl MethodVisitor for Method>::{visit_exceptions,visit_deprecated_and_synthetic_attribute,visit_code,finish_code}"]}
//# {"id":"c01_tree_code_slots","props":["C01"],"tier":"quick","cap":1200,"bound":"Code as CodeVisitor: max_stack / max_locals (all u16 pairs), two instructions with symbolic labels (BiPush with a symbolic operand, then Return), last label (symbolic id; a second one refused), a one-entry line-number table (symbolic label and line): every fact in its own slot, instruction order and label attachment preserved; unwind 6","fns":["duke::visitor::implementations::tree::<impl CodeVisitor for Code>::{visit_max_stack_and_max_locals,visit_instruction,visit_last_label,visit_line_numbers}"]}
//# {"id":"c01_tree_class_slots","props":["C01"],"tier":"quick","cap":1200,"bound":"ClassFile as ClassVisitor: one visit call out of {nest host, module main class, source file, source debug extension, deprecated/synthetic} (constant per arm) with a symbolic one-byte value / symbolic flags, then the same call again: the value lands in exactly its own slot, no other single-slot fact changes, the second visit is refused and changes nothing; unwind 6","fns":["duke::visitor::implementations::tree::<impl ClassVisitor for ClassFile>::{visit_nest_host_class,visit_module_main_class,visit_source_file,visit_source_debug_extension,visit_deprecated_and_synthetic_attribute}","duke::OptionExpansion::insert_if_empty"]}
proofs! {
	#[cfg_attr(kani, kani::unwind(6))]
	fn c01_tree_member_slots() {
		use core::ops::ControlFlow;
		use duke::tree::field::{FieldAccess, FieldDescriptor, FieldName};
		use duke::tree::method::{MethodAccess, MethodDescriptor, MethodName};
		use duke::visitor::method::MethodVisitor;
		let (n1, n2, nf, ex) = (sym::u8(), sym::u8(), sym::u8(), sym::u8());
		let ok = |b: u8| b >= 1 && b < 0x80 && !matches!(b, b'.' | b';' | b'[' | b'/' | b'<' | b'>');
		sym::assume(ok(n1) && ok(n2) && ok(nf) && ok(ex));
		let (a1, a2, af) = (sym::u16(), sym::u16(), sym::u16());
		let (dep, syn) = (sym::bool(), sym::bool());
		// SAFETY: one valid byte each / constant valid descriptors.
		let mname = |b: u8| unsafe { MethodName::from_inner_unchecked(one_byte_class(b).into_inner()) };
		let mdesc = || unsafe { MethodDescriptor::from_inner_unchecked(JavaStr::from_str("()V").to_owned()) };
		let c = fresh();
		// first method, with facts of its own
		let ControlFlow::Continue((c, mut m1)) = c.visit_method(MethodAccess::from(a1), mname(n1), mdesc()).expect("visit_method") else { panic!("the tree builder never declines a method") };
		let mut exs = Vec::with_capacity(1); exs.push(one_byte_class(ex));
		assert!(m1.visit_exceptions(exs).is_ok());
		assert!(m1.visit_deprecated_and_synthetic_attribute(dep, syn).is_ok());
		let code = m1.visit_code().expect("visit_code").expect("the tree builder wants the code");
		assert!(m1.finish_code(code).is_ok());
		let c = ClassFile::finish_method(c, m1).expect("finish_method");
		// a field in between
		let ControlFlow::Continue((c, f)) = c.visit_field(FieldAccess::from(af), unsafe { FieldName::from_inner_unchecked(one_byte_class(nf).into_inner()) }, unsafe { FieldDescriptor::from_inner_unchecked(JavaStr::from_str("I").to_owned()) }).expect("visit_field") else { panic!("the tree builder never declines a field") };
		let c = ClassFile::finish_field(c, f).expect("finish_field");
		// second method, bare
		let ControlFlow::Continue((c, m2)) = c.visit_method(MethodAccess::from(a2), mname(n2), mdesc()).expect("visit_method") else { panic!("the tree builder never declines a method") };
		let c = ClassFile::finish_method(c, m2).expect("finish_method");

		assert!(c.methods.len() == 2 && c.fields.len() == 1, "every member is stored exactly once, in its own list");
		let (g1, g2, gf) = (&c.methods[0], &c.methods[1], &c.fields[0]);
		assert!(g1.name.as_inner().as_bytes()[0] == n1 && g2.name.as_inner().as_bytes()[0] == n2 && gf.name.as_inner().as_bytes()[0] == nf, "members keep their visit order and names");
		assert!(g1.access == MethodAccess::from(a1) && g2.access == MethodAccess::from(a2) && gf.access == FieldAccess::from(af), "access flags stay with their member");
		assert!(matches!(&g1.exceptions, Some(e) if e.len() == 1 && e[0].as_inner().as_bytes()[0] == ex) && g2.exceptions.is_none(), "Exceptions stay with the method they were visited on");
		assert!(g1.has_deprecated_attribute == dep && g1.has_synthetic_attribute == syn && !g2.has_deprecated_attribute && !g2.has_synthetic_attribute, "Deprecated / Synthetic stay with their method");
		assert!(g1.code.is_some() && g2.code.is_none(), "the Code stays with its method");
		assert!(slots(&c) == 0 && c.attributes.is_empty(), "no class-level fact is invented");
		witness!(n1 == n2 && a1 != a2, "two methods of the same name with different flags");
		core::mem::forget(c);
	}

	#[cfg_attr(kani, kani::unwind(6))]
	fn c01_tree_code_slots() {
		use duke::tree::method::code::{Code, Instruction};
		use duke::verif::{label_from_id, label_id};
		use duke::visitor::method::code::CodeVisitor;
		let (ms, ml) = (sym::u16(), sym::u16());
		let (l1, l2, last, ln_label, line) = (sym::u16(), sym::u16(), sym::u16(), sym::u16(), sym::u16());
		let has_l1 = sym::bool();
		let v = sym::i8();
		let mut c = Code::default();
		assert!(c.visit_max_stack_and_max_locals(ms, ml).is_ok());
		assert!(c.max_stack == Some(ms) && c.max_locals == Some(ml), "max_stack and max_locals must not be swapped");
		assert!(c.visit_instruction(if has_l1 { Some(label_from_id(l1)) } else { None }, None, Instruction::BiPush(v)).is_ok());
		assert!(c.visit_instruction(Some(label_from_id(l2)), None, Instruction::Return).is_ok());
		assert!(c.instructions.len() == 2, "every visited instruction is stored exactly once");
		assert!(matches!(&c.instructions[0].instruction, Instruction::BiPush(x) if *x == v) && matches!(&c.instructions[1].instruction, Instruction::Return), "instruction order and operands are preserved");
		assert!(c.instructions[0].label.as_ref().map(label_id) == if has_l1 { Some(l1) } else { None } && c.instructions[1].label.as_ref().map(label_id) == Some(l2), "labels stay attached to their instruction");
		assert!(c.visit_last_label(label_from_id(last)).is_ok() && c.last_label.as_ref().map(label_id) == Some(last));
		assert!(c.visit_last_label(label_from_id(l1)).is_err() && c.last_label.as_ref().map(label_id) == Some(last), "a second last label is refused and changes nothing");
		let mut t = Vec::with_capacity(1);
		t.push((label_from_id(ln_label), line));
		assert!(c.visit_line_numbers(t).is_ok());
		assert!(matches!(&c.line_numbers, Some(t) if t.len() == 1 && label_id(&t[0].0) == ln_label && t[0].1 == line), "line number table stored as given");
		assert!(c.local_variables.is_none() && c.exception_table.is_empty() && c.attributes.is_empty() && c.max_stack == Some(ms) && c.max_locals == Some(ml), "nothing else is invented or disturbed");
		witness!(has_l1 && l1 == l2, "two instructions carrying the same label id");
		witness!(ms != ml, "different stack and locals sizes");
		core::mem::forget(c);
	}

	#[cfg_attr(kani, kani::unwind(6))]
	fn c01_tree_class_slots() {
		let x = sym::u8();
		sym::assume(x >= 1 && x < 0x80 && !matches!(x, b'.' | b';' | b'[' | b'/'));
		let y = sym::u8();
		sym::assume(y >= 1 && y < 0x80 && !matches!(y, b'.' | b';' | b'[' | b'/') && y != x);
		let mut c = fresh();
		assert!(slots(&c) == 0, "a fresh class has no attribute facts");
		match sym::u8_in(0, 4) {
			0 => {
				assert!(c.visit_nest_host_class(one_byte_class(x)).is_ok());
				assert!(slots(&c) == 1 << 8 && is(&c.nest_host_class, x), "NestHost must be stored as the nest host and nowhere else");
				assert!(c.visit_nest_host_class(one_byte_class(y)).is_err() && slots(&c) == 1 << 8 && is(&c.nest_host_class, x), "a second NestHost is refused and changes nothing");
			},
			1 => {
				assert!(c.visit_module_main_class(one_byte_class(x)).is_ok());
				assert!(slots(&c) == 1 << 7 && is(&c.module_main_class, x), "ModuleMainClass must be stored as the module main class and nowhere else");
				assert!(c.visit_module_main_class(one_byte_class(y)).is_err() && slots(&c) == 1 << 7 && is(&c.module_main_class, x), "a second ModuleMainClass is refused and changes nothing");
			},
			2 => {
				let s = one_byte_class(x).into_inner();
				assert!(c.visit_source_file(s).is_ok());
				assert!(slots(&c) == 1 << 3 && is_str(&c.source_file, x), "SourceFile must be stored as the source file and nowhere else");
				assert!(c.visit_source_file(one_byte_class(y).into_inner()).is_err() && slots(&c) == 1 << 3 && is_str(&c.source_file, x), "a second SourceFile is refused");
			},
			3 => {
				let s = one_byte_class(x).into_inner();
				assert!(c.visit_source_debug_extension(s).is_ok());
				assert!(slots(&c) == 1 << 4 && is_str(&c.source_debug_extension, x), "SourceDebugExtension must be stored in its own slot");
				assert!(c.visit_source_debug_extension(one_byte_class(y).into_inner()).is_err() && slots(&c) == 1 << 4 && is_str(&c.source_debug_extension, x), "a second SourceDebugExtension is refused");
			},
			_ => {
				let (d, s) = (sym::bool(), sym::bool());
				assert!(c.visit_deprecated_and_synthetic_attribute(d, s).is_ok());
				assert!(slots(&c) == 0 && c.has_deprecated_attribute == d && c.has_synthetic_attribute == s, "Deprecated / Synthetic flags must not be swapped or touch anything else");
			},
		}
		assert!(c.fields.is_empty() && c.methods.is_empty() && c.interfaces.is_empty() && c.attributes.is_empty() && c.record_components.is_empty(), "no member or attribute is invented");
		witness!(x == b'M', "some name");
		core::mem::forget(c);
	}
}
