//! C01: the tree-building class visitor stores each visited item once and in its own slot
//! ("nothing is invented, dropped or attached to the wrong member", at the level of one visit call).
use crate::{proofs, sym, witness};
use duke::tree::class::{ClassAccess, ClassFile, ClassName, ClassNameSlice, ObjClassNameSlice};
use duke::tree::version::Version;
use duke::visitor::class::ClassVisitor;
use java_string::{JavaStr, JavaString};

fn fresh() -> ClassFile {
	// SAFETY: "A" is a valid class name.
	let name = unsafe { ObjClassNameSlice::from_inner_unchecked(JavaStr::from_str("A")) }.to_owned();
	ClassFile::new(Version::V1_8, ClassAccess::from(0x0021u16), name, None, Vec::new())
}
/// how many of the single-slot facts are set, as a bit set
fn slots(c: &ClassFile) -> u16 {
	(c.inner_classes.is_some() as u16) | (c.enclosing_method.is_some() as u16) << 1 | (c.signature.is_some() as u16) << 2
		| (c.source_file.is_some() as u16) << 3 | (c.source_debug_extension.is_some() as u16) << 4 | (c.module.is_some() as u16) << 5
		| (c.module_packages.is_some() as u16) << 6 | (c.module_main_class.is_some() as u16) << 7 | (c.nest_host_class.is_some() as u16) << 8
		| (c.nest_members.is_some() as u16) << 9 | (c.permitted_subclasses.is_some() as u16) << 10
}
fn one_byte_class(x: u8) -> ClassName {
	let b = [x];
	// SAFETY: the caller assumes a byte that is a valid one-byte class name.
	unsafe { ClassNameSlice::from_inner_unchecked(JavaStr::from_semi_utf8_unchecked(&b)) }.to_owned()
}
fn is(c: &Option<ClassName>, x: u8) -> bool { matches!(c, Some(n) if n.as_inner().as_bytes().len() == 1 && n.as_inner().as_bytes()[0] == x) }
fn is_str(c: &Option<JavaString>, x: u8) -> bool { matches!(c, Some(n) if n.as_bytes().len() == 1 && n.as_bytes()[0] == x) }

//# {"id":"c01_tree_class_slots","props":["C01"],"tier":"quick","cap":1200,"bound":"ClassFile as ClassVisitor: one visit call out of {nest host, module main class, source file, source debug extension, deprecated/synthetic} (constant per arm) with a symbolic one-byte value / symbolic flags, then the same call again: the value lands in exactly its own slot, no other single-slot fact changes, the second visit is refused and changes nothing; unwind 6","fns":["duke::visitor::implementations::tree::<impl ClassVisitor for ClassFile>::{visit_nest_host_class,visit_module_main_class,visit_source_file,visit_source_debug_extension,visit_deprecated_and_synthetic_attribute}","duke::OptionExpansion::insert_if_empty"]}
proofs! {
	#[cfg_attr(kani, kani::unwind(6))]
	fn c01_tree_class_slots() {
		let x = sym::u8();
		sym::assume(x >= 1 && x < 0x80 && !matches!(x, b'.' | b';' | b'[' | b'/'));
		let y = sym::u8();
		sym::assume(y >= 1 && y < 0x80 && !matches!(y, b'.' | b';' | b'[' | b'/') && y != x);
		let mut c = fresh();
		assert!(slots(&c) == 0, "a fresh class has no attribute facts");
		match sym::u8_in(0, 4) {
			0 => {
				assert!(c.visit_nest_host_class(one_byte_class(x)).is_ok());
				assert!(slots(&c) == 1 << 8 && is(&c.nest_host_class, x), "NestHost must be stored as the nest host and nowhere else");
				assert!(c.visit_nest_host_class(one_byte_class(y)).is_err() && slots(&c) == 1 << 8 && is(&c.nest_host_class, x), "a second NestHost is refused and changes nothing");
			},
			1 => {
				assert!(c.visit_module_main_class(one_byte_class(x)).is_ok());
				assert!(slots(&c) == 1 << 7 && is(&c.module_main_class, x), "ModuleMainClass must be stored as the module main class and nowhere else");
				assert!(c.visit_module_main_class(one_byte_class(y)).is_err() && slots(&c) == 1 << 7 && is(&c.module_main_class, x), "a second ModuleMainClass is refused and changes nothing");
			},
			2 => {
				let s = one_byte_class(x).into_inner();
				assert!(c.visit_source_file(s).is_ok());
				assert!(slots(&c) == 1 << 3 && is_str(&c.source_file, x), "SourceFile must be stored as the source file and nowhere else");
				assert!(c.visit_source_file(one_byte_class(y).into_inner()).is_err() && slots(&c) == 1 << 3 && is_str(&c.source_file, x), "a second SourceFile is refused");
			},
			3 => {
				let s = one_byte_class(x).into_inner();
				assert!(c.visit_source_debug_extension(s).is_ok());
				assert!(slots(&c) == 1 << 4 && is_str(&c.source_debug_extension, x), "SourceDebugExtension must be stored in its own slot");
				assert!(c.visit_source_debug_extension(one_byte_class(y).into_inner()).is_err() && slots(&c) == 1 << 4 && is_str(&c.source_debug_extension, x), "a second SourceDebugExtension is refused");
			},
			_ => {
				let (d, s) = (sym::bool(), sym::bool());
				assert!(c.visit_deprecated_and_synthetic_attribute(d, s).is_ok());
				assert!(slots(&c) == 0 && c.has_deprecated_attribute == d && c.has_synthetic_attribute == s, "Deprecated / Synthetic flags must not be swapped or touch anything else");
			},
		}
		assert!(c.fields.is_empty() && c.methods.is_empty() && c.interfaces.is_empty() && c.attributes.is_empty() && c.record_components.is_empty(), "no member or attribute is invented");
		witness!(x == b'M', "some name");
		core::mem::forget(c);
	}
}
