//! Harness bodies for the solver-based checks of feather-build-rs (see /verif/DESIGN.md).
//!
//! Compiled twice from the same sources:
//!  * by Kani (crate /verif/kani, model crates patched in) – every `proofs!` entry is a `#[kani::proof]`;
//!  * natively (crate /verif/replay, real dependencies) – the same bodies are re-executed on the
//!    concrete values of a counterexample before anything is reported.
//!
//! Lines starting with `//#` carry the machine-readable metadata the driver (`/verif/check`) uses.
#![allow(clippy::all)]
#![allow(dead_code, unused_imports, unused_variables, unused_mut)]

pub mod sym;

/// Declares harnesses. Each becomes a `pub fn` (native replay) that is also a Kani proof.
#[macro_export]
macro_rules! proofs {
	($( $(#[$m:meta])* fn $name:ident() $body:block )*) => {
		$( #[cfg_attr(kani, kani::proof)] $(#[$m])* pub fn $name() $body )*
		pub const LIST: &[(&str, fn())] = &[ $( (stringify!($name), $name as fn()) ),* ];
	};
}

pub mod refmodel;
pub mod strs;
#[cfg(kani)]
pub mod hstubs;
pub mod c01_flags;
pub mod c01_reader;
pub mod c01_pool;
pub mod c01_tree;
pub mod c02_jumps;
pub mod c02_args;
pub mod qk;
pub mod c04_action;
pub mod c04_map;
pub mod c06_remap;
pub mod c09_kernels;
pub mod c11_inner;
pub mod c13_merge;
pub mod c14_nest;
pub mod c16_code;
pub mod c18_desc;
pub mod c18_names;
pub mod c20_raw;

pub fn all() -> Vec<(&'static str, fn())> {
	let mut v = Vec::new();
	v.extend_from_slice(c01_flags::LIST);
	v.extend_from_slice(c01_reader::LIST);
	v.extend_from_slice(c01_pool::LIST);
	v.extend_from_slice(c01_tree::LIST);
	v.extend_from_slice(c02_jumps::LIST);
	v.extend_from_slice(c02_args::LIST);
	v.extend_from_slice(c04_action::LIST);
	v.extend_from_slice(c04_map::LIST);
	v.extend_from_slice(c06_remap::LIST);
	v.extend_from_slice(c06_remap::inherit_proofs::LIST);
	v.extend_from_slice(c09_kernels::LIST);
	v.extend_from_slice(c11_inner::LIST);
	v.extend_from_slice(c14_nest::LIST);
	v.extend_from_slice(c13_merge::LIST);
	v.extend_from_slice(c16_code::LIST);
	v.extend_from_slice(c18_desc::LIST);
	v.extend_from_slice(c18_names::LIST);
	v.extend_from_slice(c20_raw::LIST);
	v
}
