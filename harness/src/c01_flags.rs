//! C01 (decode) / C02 (encode): access-flag words. Every one of the 65 536 words is covered by
//! the solver; the oracle is the JVMS bit table in `refmodel::acc`.
use crate::refmodel::{acc::*, bit};
use crate::{proofs, sym, witness};
use duke::tree::class::{ClassAccess, InnerClassFlags};
use duke::tree::field::FieldAccess;
use duke::tree::method::{MethodAccess, ParameterFlags};
use duke::verif as hook;

//# {"id":"c01_flags_class","props":["C01","C02"],"tier":"quick","cap":120,"bound":"all 65536 u16 words; no loops","fns":["duke::tree::class::<ClassAccess as From<u16>>::from","<u16 as From<ClassAccess>>::from"]}
//# {"id":"c01_flags_field","props":["C01","C02"],"tier":"quick","cap":120,"bound":"all 65536 u16 words; no loops","fns":["<FieldAccess as From<u16>>::from","<u16 as From<FieldAccess>>::from"]}
//# {"id":"c01_flags_method","props":["C01","C02"],"tier":"quick","cap":120,"bound":"all 65536 u16 words; no loops","fns":["<MethodAccess as From<u16>>::from","<u16 as From<MethodAccess>>::from"]}
//# {"id":"c01_flags_inner_class","props":["C01","C02"],"tier":"quick","cap":120,"bound":"all 65536 u16 words; no loops","fns":["<InnerClassFlags as From<u16>>::from","<u16 as From<InnerClassFlags>>::from"]}
//# {"id":"c01_flags_parameter","props":["C01","C02"],"tier":"quick","cap":120,"bound":"all 65536 u16 words; no loops","fns":["<ParameterFlags as From<u16>>::from","<u16 as From<ParameterFlags>>::from"]}
//# {"id":"c01_flags_module","props":["C01","C02"],"tier":"quick","cap":120,"bound":"all 65536 u16 words x 4 module flag types; no loops","fns":["<ModuleFlags as From<u16>>::from","<ModuleRequiresFlags as From<u16>>::from","<ModuleExportsFlags as From<u16>>::from","<ModuleOpensFlags as From<u16>>::from","and the four inverse conversions"]}
proofs! {
	fn c01_flags_class() {
		let w = sym::u16();
		let a = ClassAccess::from(w);
		assert!(a.is_public == bit(w, PUBLIC));
		assert!(a.is_final == bit(w, FINAL));
		assert!(a.is_super == bit(w, SUPER));
		assert!(a.is_interface == bit(w, INTERFACE));
		assert!(a.is_abstract == bit(w, ABSTRACT));
		assert!(a.is_synthetic == bit(w, SYNTHETIC));
		assert!(a.is_annotation == bit(w, ANNOTATION));
		assert!(a.is_enum == bit(w, ENUM));
		assert!(a.is_module == bit(w, MODULE));
		// encoder inverts the decoder on the defined bits and sets nothing else
		let known = PUBLIC | FINAL | SUPER | INTERFACE | ABSTRACT | SYNTHETIC | ANNOTATION | ENUM | MODULE;
		assert!(u16::from(a) == w & known);
		witness!(a.is_module && a.is_public, "module+public word");
		witness!(w & !known != 0, "word with undefined bits");
	}

	fn c01_flags_field() {
		let w = sym::u16();
		let a = FieldAccess::from(w);
		assert!(a.is_public == bit(w, PUBLIC));
		assert!(a.is_private == bit(w, PRIVATE));
		assert!(a.is_protected == bit(w, PROTECTED));
		assert!(a.is_static == bit(w, STATIC));
		assert!(a.is_final == bit(w, FINAL));
		assert!(a.is_volatile == bit(w, VOLATILE));
		assert!(a.is_transient == bit(w, TRANSIENT));
		assert!(a.is_synthetic == bit(w, SYNTHETIC));
		assert!(a.is_enum == bit(w, ENUM));
		let known = PUBLIC | PRIVATE | PROTECTED | STATIC | FINAL | VOLATILE | TRANSIENT | SYNTHETIC | ENUM;
		assert!(u16::from(a) == w & known);
		witness!(a.is_volatile && a.is_enum, "volatile+enum word");
	}

	fn c01_flags_method() {
		let w = sym::u16();
		let a = MethodAccess::from(w);
		assert!(a.is_public == bit(w, PUBLIC));
		assert!(a.is_private == bit(w, PRIVATE));
		assert!(a.is_protected == bit(w, PROTECTED));
		assert!(a.is_static == bit(w, STATIC));
		assert!(a.is_final == bit(w, FINAL));
		assert!(a.is_synchronized == bit(w, SYNCHRONIZED));
		assert!(a.is_bridge == bit(w, BRIDGE));
		assert!(a.is_varargs == bit(w, VARARGS));
		assert!(a.is_native == bit(w, NATIVE));
		assert!(a.is_abstract == bit(w, ABSTRACT));
		assert!(a.is_strict == bit(w, STRICT));
		assert!(a.is_synthetic == bit(w, SYNTHETIC));
		let known = PUBLIC | PRIVATE | PROTECTED | STATIC | FINAL | SYNCHRONIZED | BRIDGE | VARARGS | NATIVE | ABSTRACT | STRICT | SYNTHETIC;
		assert!(u16::from(a) == w & known);
		witness!(a.is_bridge && a.is_synthetic, "bridge+synthetic word");
	}

	fn c01_flags_inner_class() {
		let w = sym::u16();
		let a = InnerClassFlags::from(w);
		assert!(a.is_public == bit(w, PUBLIC));
		assert!(a.is_private == bit(w, PRIVATE));
		assert!(a.is_protected == bit(w, PROTECTED));
		assert!(a.is_static == bit(w, STATIC));
		assert!(a.is_final == bit(w, FINAL));
		assert!(a.is_interface == bit(w, INTERFACE));
		assert!(a.is_abstract == bit(w, ABSTRACT));
		assert!(a.is_synthetic == bit(w, SYNTHETIC));
		assert!(a.is_annotation == bit(w, ANNOTATION));
		assert!(a.is_enum == bit(w, ENUM));
		let known = PUBLIC | PRIVATE | PROTECTED | STATIC | FINAL | INTERFACE | ABSTRACT | SYNTHETIC | ANNOTATION | ENUM;
		assert!(u16::from(a) == w & known);
		witness!(a.is_static && a.is_enum, "static+enum word");
	}

	fn c01_flags_parameter() {
		let w = sym::u16();
		let a = ParameterFlags::from(w);
		assert!(a.is_final == bit(w, FINAL));
		assert!(a.is_synthetic == bit(w, SYNTHETIC));
		assert!(a.is_mandated == bit(w, MANDATED));
		assert!(u16::from(a) == w & (FINAL | SYNTHETIC | MANDATED));
		witness!(a.is_final && a.is_mandated, "final+mandated word");
	}

	fn c01_flags_module() {
		use duke::tree::module::{ModuleExportsFlags, ModuleFlags, ModuleOpensFlags, ModuleRequiresFlags};
		let w = sym::u16();
		let m = ModuleFlags::from(w);
		assert!(hook::module_flags(&m) == (bit(w, OPEN), bit(w, SYNTHETIC), bit(w, MANDATED)));
		assert!(u16::from(m) == w & (OPEN | SYNTHETIC | MANDATED));
		let r = ModuleRequiresFlags::from(w);
		assert!(hook::module_requires_flags(&r) == (bit(w, TRANSITIVE), bit(w, STATIC_PHASE), bit(w, SYNTHETIC), bit(w, MANDATED)));
		assert!(u16::from(r) == w & (TRANSITIVE | STATIC_PHASE | SYNTHETIC | MANDATED));
		let e = ModuleExportsFlags::from(w);
		assert!(hook::module_exports_flags(&e) == (bit(w, SYNTHETIC), bit(w, MANDATED)));
		assert!(u16::from(e) == w & (SYNTHETIC | MANDATED));
		let o = ModuleOpensFlags::from(w);
		assert!(hook::module_opens_flags(&o) == (bit(w, SYNTHETIC), bit(w, MANDATED)));
		assert!(u16::from(o) == w & (SYNTHETIC | MANDATED));
		witness!(bit(w, OPEN) && !bit(w, FINAL), "open module word");
	}
}
