//! C09 (merge), C04 (diff) and C08 (reorder): the generic join / zip / permutation kernels,
//! instantiated with one-byte keys and names over the indexmap model.
use crate::qk::*;
use crate::{proofs, sym, witness};
use indexmap::IndexMap;
use quill::tree::mappings_diff::Action;
use quill::tree::names::{Names, Namespace};
use quill::verif as hook;

// ---------------------------------------------------------------------------------------------
// zip_map_combination: union of keys in first-seen order, one combiner call per key
// ---------------------------------------------------------------------------------------------
fn build_map<const N: usize>(keys: &[u8; N], vals: &[u8; N]) -> IndexMap<u8, u8> {
	let mut m = IndexMap::new();
	let mut i = 0;
	while i < N { m.insert(keys[i], vals[i]); i += 1; }
	m
}
/// combiner: encodes which sides it saw; 0xEE makes it fail
fn combine(a: Option<&u8>, b: Option<&u8>) -> anyhow::Result<(u8, u8)> {
	let r = (a.copied().unwrap_or(0xA0), b.copied().unwrap_or(0xB0));
	if r.0 == 0xEE || r.1 == 0xEE { anyhow::bail!("combiner failed"); }
	Ok(r)
}
fn zip_body<const NA: usize, const NB: usize>(side: u8) {
	let mut ka = [0u8; NA]; let mut va = [0u8; NA]; let mut kb = [0u8; NB]; let mut vb = [0u8; NB];
	let mut i = 0;
	while i < NA { ka[i] = sym::u8_in(1, 4); let v = sym::u8(); sym::assume(v <= 9 || v == 0xEE); va[i] = v; i += 1; }
	let mut i = 0;
	while i < NB { kb[i] = sym::u8_in(1, 4); let v = sym::u8(); sym::assume(v <= 9 || v == 0xEE); vb[i] = v; i += 1; }
	if NA == 2 { sym::assume(ka[0] != ka[NA - 1]); }
	if NB == 2 { sym::assume(kb[0] != kb[NB - 1]); }
	let a = build_map(&ka, &va);
	let b = build_map(&kb, &vb);
	let got = match side {
		0 => hook::diff::zip_map_combination(Some(&a), None, combine),
		1 => hook::diff::zip_map_combination(None, Some(&b), combine),
		_ => hook::diff::zip_map_combination(Some(&a), Some(&b), combine),
	};
	// reference: keys of a in order, then keys of b not in a, in order
	let mut want: [(u8, u8, u8); 4] = [(0, 0, 0); 4];
	let mut n = 0;
	let mut fail = false;
	if side != 1 {
		let mut i = 0;
		while i < NA {
			let mut other = 0xB0;
			if side == 2 { let mut j = 0; while j < NB { if kb[j] == ka[i] { other = vb[j]; } j += 1; } }
			if va[i] == 0xEE || other == 0xEE { fail = true; }
			want[n] = (ka[i], va[i], other); n += 1; i += 1;
		}
	}
	if side != 0 {
		let mut j = 0;
		while j < NB {
			let mut seen = false;
			if side == 2 { let mut i = 0; while i < NA { if ka[i] == kb[j] { seen = true; } i += 1; } }
			if !seen { if vb[j] == 0xEE { fail = true; } want[n] = (kb[j], 0xA0, vb[j]); n += 1; }
			j += 1;
		}
	}
	match got {
		Err(_) => assert!(fail, "zip refused although every combiner call succeeds"),
		Ok(m) => {
			assert!(!fail, "zip succeeded although a combiner call fails");
			assert!(m.len() == n, "entries are not exactly the union of the keys");
			let mut k = 0;
			while k < n {
				let (key, x, y) = want[k];
				assert!(m.get_index(k) == Some((&key, &(x, y))), "entry differs: key order must be first-seen, A-only / B-only / both must be told apart");
				k += 1;
			}
			core::mem::forget(m);
		},
	}
	witness!(side != 2 || NA == 0 || NB == 0 || (!fail && n == NA + NB - 1), "one shared key (or a one-sided call / an empty side)");
	witness!(!fail && (side != 2 || n == NA + NB), "disjoint keys / one-sided success");
	witness!(fail, "a failing combiner call");
	core::mem::forget(a); core::mem::forget(b);
}

// ---------------------------------------------------------------------------------------------
fn node2(key: u8, name: Option<Nm>, doc: Option<u8>) -> Node { Node { info: Info { key, names: names2(Some(Nm(key)), name) }, payload: 0, doc } }

//# {"id":"c09_zip_ab_2_2","props":["C09","C04"],"tier":"quick","cap":900,"bound":"zip_map_combination::<u8,u8,(u8,u8)>: both sides, 2 + 2 keys in 1..=4, combiner ok/failing; unwind 6","fns":["quill::action::diff_mappings::diff_and_merge::{zip_map_combination,zip_map}"]}
//# {"id":"c09_zip_one_side","props":["C09","C04"],"tier":"quick","cap":600,"bound":"zip_map_combination with only side A or only side B, 2 keys; unwind 5","fns":["zip_map_combination","map_combine_one_side"]}
//# {"id":"c09_zip_ab_2_1","props":["C09","C04"],"tier":"quick","cap":900,"bound":"both sides, 2 + 1 keys; unwind 5","fns":["zip_map_combination","zip_map"]}
//# {"id":"c09_zip_empty_side","props":["C09","C04"],"tier":"quick","cap":900,"bound":"both sides given, one of them an EMPTY map (0 + 2 keys and 2 + 0 keys), combiner ok/failing; unwind 5","fns":["zip_map_combination","zip_map"]}
//# {"id":"c09_merge_names","props":["C09"],"tier":"quick","cap":600,"bound":"merge_names over Names<2, 1-byte name>: every cell content on each side, A-only / B-only / both; no loops beyond array maps (unwind 5)","fns":["quill::action::merge::merge_names"]}
//# {"id":"c09_merge_equal_javadoc","props":["C09"],"tier":"quick","cap":600,"bound":"merge_equal::<u8>, merge_javadoc / merge_javadoc_ab with Option<u8> comments: every combination; unwind 3","fns":["quill::action::merge::{merge_equal,merge_javadoc,merge_javadoc_ab}"]}
//# {"id":"c04_gen_diff","props":["C04"],"tier":"quick","cap":600,"bound":"gen_diff_names / gen_diff_javadoc over one-byte names and comments: every cell content, A-only / B-only / both; then apply_diff_option(gen_diff_javadoc(a,b), a) == b; unwind 4","fns":["quill::action::diff_mappings::{gen_diff_names,gen_diff_javadoc}","quill::apply_diff_option","Names::change_name"]}
//# {"id":"c08_names_reorder","props":["C08"],"tier":"quick","cap":600,"bound":"Names<3, 1-byte name>::reorder for all 27 index tables and all cell contents; permutation followed by its inverse is the identity; unwind 5","fns":["quill::tree::names::Names::<3,_>::reorder"]}
//# {"id":"c08_rekey","props":["C08"],"tier":"quick","cap":900,"bound":"map_with_key_from_result_iter::<u8, Node, Info> on 3 nodes: keys in 1..=3 or missing, one element may be an Err; indexmap model; unwind 6","fns":["quill::tree::mappings::{map_with_key_from_result_iter,add_child}"]}
proofs! {
	#[cfg_attr(kani, kani::unwind(6))]
	fn c09_zip_ab_2_2() { zip_body::<2, 2>(2); }
	#[cfg_attr(kani, kani::unwind(5))]
	fn c09_zip_one_side() { let side = if sym::bool() { 0 } else { 1 }; zip_body::<2, 2>(side); }
	#[cfg_attr(kani, kani::unwind(5))]
	fn c09_zip_ab_2_1() { zip_body::<2, 1>(2); }
	#[cfg_attr(kani, kani::unwind(5))]
	fn c09_zip_empty_side() { if sym::bool() { zip_body::<0, 2>(2); } else { zip_body::<2, 0>(2); } }

	#[cfg_attr(kani, kani::unwind(5))]
	fn c09_merge_names() {
		let (a0, a1, b0, b1) = (any_opt_nm(), any_opt_nm(), any_opt_nm(), any_opt_nm());
		let side = sym::u8_in(0, 2);
		let a = names2(a0, a1);
		let b = names2(b0, b1);
		let got = match side {
			0 => hook::merge::merge_names(Some(&a), None),
			1 => hook::merge::merge_names(None, Some(&b)),
			_ => hook::merge::merge_names(Some(&a), Some(&b)),
		};
		let want: Result<[Option<Nm>; 3], ()> = match side {
			0 => Ok([a0, a1, None]),
			1 => Ok([b0, None, b1]),
			_ => if a0 != b0 { Err(()) } else { Ok([a0, a1, b1]) },
		};
		match (got, want) {
			(Ok(n), Ok(w)) => { assert!(*hook::names_array(&n) == w, "column placement: A's name in column 1, B's name in column 2"); },
			(Err(_), Err(())) => {},
			(Ok(_), Err(())) => panic!("differing first names must be an error"),
			(Err(_), Ok(_)) => panic!("merge_names refused a legal pair"),
		}
		witness!(side == 2 && a0 == b0 && a1.is_some() && b1.is_none(), "both sides, B lacks a name");
		witness!(side == 2 && a0 != b0, "differing source names");
	}

	#[cfg_attr(kani, kani::unwind(3))]
	fn c09_merge_equal_javadoc() {
		let x = sym::u8(); let y = sym::u8();
		let side = sym::u8_in(0, 2);
		let got = match side { 0 => hook::merge::merge_equal(Some(&x), None), 1 => hook::merge::merge_equal(None, Some(&y)), _ => hook::merge::merge_equal(Some(&x), Some(&y)) };
		match side {
			0 => assert!(matches!(got, Ok(v) if v == x)),
			1 => assert!(matches!(got, Ok(v) if v == y)),
			_ => if x == y { assert!(matches!(got, Ok(v) if v == x)) } else { assert!(got.is_err(), "differing descriptors / indices must be an error") },
		}
		let da = if sym::bool() { Some(sym::u8()) } else { None };
		let db = if sym::bool() { Some(sym::u8()) } else { None };
		let na = node2(1, None, da);
		let nb = node2(1, None, db);
		let want: Result<Option<u8>, ()> = match (da, db) { (None, None) => Ok(None), (Some(a), None) => Ok(Some(a)), (None, Some(b)) => Ok(Some(b)), (Some(a), Some(b)) => if a == b { Ok(Some(a)) } else { Err(()) } };
		let got = hook::merge::merge_javadoc::<Node, u8>(Some(&na), Some(&nb));
		assert!(got.as_ref().ok().copied() == want.ok() && got.is_err() == want.is_err(), "comment from whichever side has one; differing comments are an error");
		let got = hook::merge::merge_javadoc_ab::<Node, Node, u8>(&na, &nb);
		assert!(got.as_ref().ok().copied() == want.ok() && got.is_err() == want.is_err());
		assert!(matches!(hook::merge::merge_javadoc::<Node, u8>(Some(&na), None), Ok(d) if d == da));
		assert!(matches!(hook::merge::merge_javadoc::<Node, u8>(None, Some(&nb)), Ok(d) if d == db));
		witness!(da.is_some() && db.is_some() && da != db, "conflicting comments");
		witness!(side == 2 && x != y, "conflicting descriptors");
	}

	#[cfg_attr(kani, kani::unwind(4))]
	fn c04_gen_diff() {
		let (an, bn) = (any_opt_nm(), any_opt_nm());
		let da = if sym::bool() { Some(sym::u8()) } else { None };
		let db = if sym::bool() { Some(sym::u8()) } else { None };
		let side = sym::u8_in(0, 2);
		let a = node2(1, an, da);
		let b = node2(1, bn, db);
		let (sa, sb) = match side { 0 => (Some(&a), None), 1 => (None, Some(&b)), _ => (Some(&a), Some(&b)) };
		// names
		let got = hook::diff::gen_diff_names::<Node, Nm, Info>(sa, sb);
		let want: Result<Action<Nm>, ()> = match side {
			0 => an.map(Action::Remove).ok_or(()),
			1 => bn.map(Action::Add).ok_or(()),
			_ => match (an, bn) { (Some(x), Some(y)) => Ok(Action::Edit(x, y)), _ => Err(()) },
		};
		assert!(got.as_ref().ok().copied() == want.ok() && got.is_err() == want.is_err(), "Remove for A-only, Add for B-only, Edit for both");
		// applying the generated name diff to A's name cell yields B's
		if let (2, Ok(action)) = (side, &got) {
			let mut names = names2(Some(Nm(1)), an);
			let from = match action { Action::Edit(x, _) | Action::Remove(x) => Some(x), _ => None };
			let to = match action { Action::Edit(_, y) | Action::Add(y) => Some(y), _ => None };
			assert!(names.change_name(ns(1), from, to).is_ok());
			assert!(cells2(&names)[1] == bn, "apply(diff(a, b), a) != b on the name cell");
		}
		// comments
		let jd = hook::diff::gen_diff_javadoc::<Node, u8>(sa, sb);
		let (pre, post) = match side { 0 => (da, None), 1 => (None, db), _ => (da, db) };
		assert!(jd.to_tuple() == (pre, post), "comment diff must describe exactly the change");
		let applied = quill::apply_diff_option(&jd, pre);
		assert!(matches!(applied, Ok(r) if r == post), "apply(diff(a, b), a) != b on the comment");
		witness!(side == 2 && an.is_some() && bn.is_some() && an != bn, "a rename");
		witness!(side == 2 && da.is_some() && db.is_none(), "a removed comment");
	}

	#[cfg_attr(kani, kani::unwind(5))]
	fn c08_names_reorder() {
		let cells = [any_opt_nm(), any_opt_nm(), any_opt_nm()];
		let t = [sym::usize_in(0, 2), sym::usize_in(0, 2), sym::usize_in(0, 2)];
		let mut names: Names<3, Nm> = hook::names_none();
		names[ns(0)] = cells[0]; names[ns(1)] = cells[1]; names[ns(2)] = cells[2];
		let table: [Namespace<3>; 3] = [ns(t[0]), ns(t[1]), ns(t[2])];
		let r = hook::names_reorder(&names, table).expect("reordering names cannot fail");
		let out = *hook::names_array(&r);
		assert!(out[0] == cells[t[0]] && out[1] == cells[t[1]] && out[2] == cells[t[2]], "cell i of the result must be cell table[i] of the input");
		// a permutation followed by its inverse is the identity
		if t[0] != t[1] && t[1] != t[2] && t[0] != t[2] {
			let mut inv = [0usize; 3];
			inv[t[0]] = 0; inv[t[1]] = 1; inv[t[2]] = 2;
			let back = hook::names_reorder(&r, [ns(inv[0]), ns(inv[1]), ns(inv[2])]).expect("reordering names cannot fail");
			let bk = *hook::names_array(&back);
			assert!(bk[0] == cells[0] && bk[1] == cells[1] && bk[2] == cells[2], "permutation then inverse must restore the row");
		}
		witness!(t[0] == 2 && t[1] == 0 && t[2] == 1, "a 3-cycle");
		witness!(t[0] == t[1], "a non-injective table");
	}

	#[cfg_attr(kani, kani::unwind(6))]
	fn c08_rekey() {
		use quill::tree::mappings::map_with_key_from_result_iter;
		let k = [sym::u8_in(1, 3), sym::u8_in(1, 3), sym::u8_in(1, 3)];
		let bad = sym::u8_in(0, 3); // index of the element that is an Err (3 = none)
		let items: [anyhow::Result<Node>; 3] = [
			if bad == 0 { Err(anyhow::anyhow!("no name in the new first namespace")) } else { Ok(node2(k[0], None, Some(10))) },
			if bad == 1 { Err(anyhow::anyhow!("no name in the new first namespace")) } else { Ok(node2(k[1], None, Some(11))) },
			if bad == 2 { Err(anyhow::anyhow!("no name in the new first namespace")) } else { Ok(node2(k[2], None, Some(12))) },
		];
		let got = map_with_key_from_result_iter::<u8, Node, Info>(items);
		// duplicates among the elements that are reached before the first failing one
		let upto = if bad < 3 { bad as usize } else { 3 };
		let dup = (upto >= 2 && k[0] == k[1]) || (upto >= 3 && (k[0] == k[2] || k[1] == k[2]));
		let want_err = bad < 3 || dup;
		match got {
			Err(_) => assert!(want_err, "re-keying refused although all keys are present and distinct"),
			Ok(m) => {
				assert!(!want_err, "a missing or duplicate key must be an error, not a dropped or mis-keyed entry");
				assert!(m.len() == 3);
				let mut i = 0;
				while i < 3 {
					let (key, node) = m.get_index(i).expect("entry");
					assert!(*key == k[i] && node.info.key == k[i] && node.doc == Some(10 + i as u8), "order and content must be kept");
					i += 1;
				}
				core::mem::forget(m);
			},
		}
		witness!(!want_err, "three distinct keys");
		witness!(bad == 3 && k[0] == k[2] && k[0] != k[1], "first and last key collide");
	}
}
