//! C01 / C16: decoding kernels of the class reader.
use crate::{proofs, sym, witness};
use duke::verif::{self as hook, reader};

//# {"id":"c01_branch_i16","props":["C01","C16"],"tier":"quick","cap":600,"bound":"all opcode_pos in u16 x all i16 offsets (2 operand bytes), plus the truncated operand (0 or 1 byte); unwind 4","fns":["duke::class_reader::CodeReadHelper::read_i16_as_branch_target_label"]}
//# {"id":"c01_branch_i32","props":["C01","C16"],"tier":"quick","cap":600,"bound":"all opcode_pos in u16 x all i32 offsets (4 operand bytes), plus truncated operands; unwind 6","fns":["CodeReadHelper::read_i32_as_branch_target_label"]}
//# {"id":"c01_switch_align","props":["C01","C16"],"tier":"quick","cap":600,"bound":"reader-side switch padding from every stream position 0..=7 over an 8-byte buffer; unwind 5","fns":["duke::class_reader::align_to_4_byte_boundary"]}
//# {"id":"c01_atype","props":["C01","C02","C16"],"tier":"quick","cap":300,"bound":"all 256 atype bytes; no loops","fns":["duke::tree::method::code::ArrayType::{from_atype,to_atype}"]}
//# {"id":"c02_write_usize","props":["C02"],"tier":"quick","cap":600,"bound":"all usize values; write_usize_as_u8/u16/u32 into an empty Vec; unwind 6","fns":["duke::ClassWrite::{write_usize_as_u8,write_usize_as_u16,write_usize_as_u32}"]}
proofs! {
	#[cfg_attr(kani, kani::unwind(4))]
	fn c01_branch_i16() {
		let pos = sym::u16();
		let b = [sym::u8(), sym::u8()];
		let n = sym::usize_in(0, 2);
		let r = reader::read_i16_as_branch_target_label(&b[..n], pos);
		if n < 2 {
			assert!(r.is_err(), "a truncated branch operand must be an error");
		} else {
			let t = pos as i64 + i16::from_be_bytes(b) as i64;
			if t >= 0 && t <= 65535 { assert!(matches!(r, Ok(x) if x as i64 == t), "target = opcode position + signed 16-bit offset"); }
			else { assert!(r.is_err(), "a target outside 0..=65535 must be an error"); }
			witness!(t == 65535, "target at the very end");
			witness!(t < 0, "target before the method");
		}
		core::mem::forget(r);
	}

	#[cfg_attr(kani, kani::unwind(6))]
	fn c01_branch_i32() {
		let pos = sym::u16();
		let b = [sym::u8(), sym::u8(), sym::u8(), sym::u8()];
		let n = sym::usize_in(0, 4);
		let r = reader::read_i32_as_branch_target_label(&b[..n], pos);
		if n < 4 {
			assert!(r.is_err(), "a truncated branch operand must be an error");
		} else {
			let t = pos as i64 + i32::from_be_bytes(b) as i64;
			if t >= 0 && t <= 65535 { assert!(matches!(r, Ok(x) if x as i64 == t), "target = opcode position + signed 32-bit offset"); }
			else { assert!(r.is_err(), "a target outside 0..=65535 must be an error"); }
			witness!(t == 65536, "target one past the u16 range");
			witness!(t == 0 && pos == 65535, "longest backward jump");
		}
		core::mem::forget(r);
	}

	#[cfg_attr(kani, kani::unwind(5))]
	fn c01_switch_align() {
		let buf = [0u8; 8];
		let pos = sym::u8_in(0, 7) as u64;
		let r = reader::align_to_4_byte_boundary(&buf, pos);
		let want = (pos + 3) / 4 * 4;
		assert!(matches!(r, Ok(p) if p == want), "switch operands start at the next multiple of four");
		witness!(pos == 5, "three padding bytes");
		core::mem::forget(r);
	}

	fn c01_atype() {
		use duke::tree::method::code::ArrayType;
		let a = sym::u8();
		let r = hook::array_type_from_atype(a);
		// JVMS newarray: 4 boolean, 5 char, 6 float, 7 double, 8 byte, 9 short, 10 int, 11 long
		match r {
			Ok(t) => {
				let want = match a { 4 => ArrayType::Boolean, 5 => ArrayType::Char, 6 => ArrayType::Float, 7 => ArrayType::Double, 8 => ArrayType::Byte, 9 => ArrayType::Short, 10 => ArrayType::Int, 11 => ArrayType::Long, _ => panic!("atype outside 4..=11 accepted") };
				assert!(core::mem::discriminant(&t) == core::mem::discriminant(&want), "atype decoded to the wrong primitive");
				assert!(hook::array_type_to_atype(t) == a, "to_atype must invert from_atype");
			},
			Err(_) => assert!(a < 4 || a > 11, "a legal atype was rejected"),
		}
		witness!(a == 11, "long[]");
		witness!(a == 3, "illegal atype");
	}

	#[cfg_attr(kani, kani::unwind(6))]
	fn c02_write_usize() {
		let v = sym::usize();
		let mut w8 = Vec::with_capacity(4);
		let mut w16 = Vec::with_capacity(4);
		let mut w32 = Vec::with_capacity(4);
		let r8 = hook::write_usize_as_u8(&mut w8, v);
		let r16 = hook::write_usize_as_u16(&mut w16, v);
		let r32 = hook::write_usize_as_u32(&mut w32, v);
		assert!(r8.is_ok() == (v <= 0xFF) && r16.is_ok() == (v <= 0xFFFF) && r32.is_ok() == (v <= 0xFFFF_FFFF), "a count that does not fit its field must be an error, never truncated");
		if r8.is_ok() { assert!(w8.len() == 1 && w8[0] as usize == v); } else { assert!(w8.is_empty()); }
		if r16.is_ok() { assert!(w16.len() == 2 && ((w16[0] as usize) << 8 | w16[1] as usize) == v, "big-endian u16"); } else { assert!(w16.is_empty()); }
		if r32.is_ok() { assert!(w32.len() == 4 && ((w32[0] as usize) << 24 | (w32[1] as usize) << 16 | (w32[2] as usize) << 8 | w32[3] as usize) == v, "big-endian u32"); } else { assert!(w32.is_empty()); }
		witness!(v == 256, "first value that needs two bytes");
		witness!(v == 0x1_0000_0000, "first value that fits no field");
		core::mem::forget((w8, w16, w32, r8, r16, r32));
	}
}
