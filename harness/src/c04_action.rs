//! C04: the two generic kernels every level of diff application is built from.
use crate::{proofs, sym, witness};
use quill::tree::mappings_diff::Action;

fn any_action() -> Action<u8> {
	let tag = sym::u8_in(0, 3);
	let a = sym::u8();
	let b = sym::u8();
	match tag { 0 => Action::None, 1 => Action::Add(b), 2 => Action::Remove(a), _ => Action::Edit(a, b) }
}
fn any_opt() -> Option<u8> { if sym::bool() { Some(sym::u8()) } else { None } }

//# {"id":"c04_apply_diff_option","props":["C04"],"tier":"quick","cap":120,"bound":"T = u8: all 4 actions x all payloads x target absent/present with any value; no loops","fns":["quill::apply_diff_option::<u8>"]}
//# {"id":"c04_action_tuple","props":["C04"],"tier":"quick","cap":120,"bound":"T = u8: all actions / all Option pairs; no loops","fns":["quill::tree::mappings_diff::Action::<u8>::{from_tuple,to_tuple,flip,is_diff,as_ref}"]}
proofs! {
	fn c04_apply_diff_option() {
		let action = any_action();
		let target = any_opt();
		let got = quill::apply_diff_option(&action, target);
		// reference: the four-case table of the property text
		let want: Result<Option<u8>, ()> = match (action, target) {
			(Action::None, t) => Ok(t),
			(Action::Add(b), None) => Ok(Some(b)),
			(Action::Add(_), Some(_)) => Err(()),
			(Action::Remove(a), Some(t)) if t == a => Ok(None),
			(Action::Remove(_), _) => Err(()),
			(Action::Edit(a, b), Some(t)) if t == a => Ok(Some(b)),
			(Action::Edit(_, _), _) => Err(()),
		};
		match (got, want) {
			(Ok(g), Ok(w)) => { assert!(g == w); },
			(Err(_), Err(())) => {},
			_ => panic!("apply_diff_option disagrees with the four-case table"),
		}
		witness!(matches!(action, Action::Edit(a, _) if target == Some(a)), "edit with matching old value");
		witness!(matches!(action, Action::Edit(a, _) if target.is_some() && target != Some(a)), "edit with mismatching old value");
		witness!(matches!(action, Action::Remove(a) if target != Some(a) && target.is_some()), "remove with mismatching old value");
		witness!(matches!(action, Action::Add(_)) && target.is_some(), "add colliding with existing target");
	}

	fn c04_action_tuple() {
		let a = any_opt();
		let b = any_opt();
		let action = Action::from_tuple(a, b);
		assert!(action.to_tuple() == (a, b));
		assert!(action.flip().to_tuple() == (b, a));
		assert!(action.flip().flip() == action);
		// is_diff <=> the two sides differ
		assert!(action.is_diff() == (a != b));
		let act2 = any_action();
		let (x, y) = act2.to_tuple();
		assert!(Action::from_tuple(x, y) == act2);
		assert!(act2.as_ref().to_tuple() == (x.as_ref(), y.as_ref()));
		witness!(matches!(action, Action::Edit(p, q) if p == q), "edit that changes nothing");
	}
}

#[cfg(verif_selftest)]
pub mod selftest {
	use crate::{sym, witness};
	#[cfg_attr(kani, kani::proof)]
	pub fn selftest_fail() {
		let a = sym::u16();
		let b = sym::bool();
		let c = sym::i32();
		sym::assume(a > 3);
		witness!(a == 77, "a is 77");
		assert!(!(a == 0x1234 && b && c == -5), "selftest failure");
	}
}
